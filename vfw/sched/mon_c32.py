"""C32 monitor: clock expiry only expires eligible tasks.

Reference (from the statement and the spec term only):

* expiry time of instance (task, point) = point (UTC, seconds since the epoch,
  parsed here with the standard library) + the task's clock-expire offset
  (families expanded from `spec['families']`); tasks without a clock-expire
  entry never expire;
* a transition to `expired` is legal only from `waiting`, for an instance that
  no trigger command has named, at a virtual time >= its expiry time;
* after it no `jobs-submit` may name the instance (unless the operator
  triggers it afterwards);
* the children spawned by completing `expired` (everything added to the pool
  while the internal `expired` message is processed) are exactly the
  instances that the graph term makes depend on `<task>:expire`.
"""
from __future__ import annotations

import calendar
import re
import time as _time
from typing import Dict, List, Optional, Set

from .catalogue import RefGraph
from .harness import CLOCK, EPOCH0
from .mon_c05 import Counters, EarlyProfile
from .profile import Monitor
from .world import World, _CUR

COUNTS = Counters('c32-counters')
HOUR = 3600
ACTIVE = ('preparing', 'submitted', 'running')


# ---------------------------------------------------------------------------
# datetime <-> index mapping of the catalogue (hourly cycling from EPOCH0)

def point_str(i: int, base: float = EPOCH0) -> str:
    return _time.strftime('%Y%m%dT%H%MZ', _time.gmtime(base + i * HOUR))


def point_seconds(p: str) -> int:
    """Seconds since the epoch of a CCYYMMDDThhmmZ cycle point."""
    m = re.fullmatch(r'(\d{4})(\d\d)(\d\d)T(\d\d)(\d\d)Z', p)
    if not m:
        raise ValueError(f'unexpected cycle point format {p!r}')
    y, mo, d, h, mi = map(int, m.groups())
    return calendar.timegm((y, mo, d, h, mi, 0, 0, 0, 0))


def offset_seconds(s: str) -> int:
    """ISO 8601 duration of the catalogue's forms: [-]P[nD][T[nH][nM][nS]]."""
    m = re.fullmatch(
        r'(-)?P(?:(\d+)D)?(?:T(?:(\d+)H)?(?:(\d+)M)?(?:(\d+)S)?)?', s)
    if not m or s in ('P', '-P'):
        raise ValueError(f'catalogue offset not supported: {s!r}')
    sign, d, h, mi, sec = m.groups()
    val = (int(d or 0) * 86400 + int(h or 0) * 3600 + int(mi or 0) * 60
           + int(sec or 0))
    return -val if sign else val


def ref_offsets(spec: dict) -> Dict[str, int]:
    """task name -> clock-expire offset in seconds (families expanded)."""
    out: Dict[str, int] = {}
    text = spec.get('special', {}).get('clock-expire', '')
    fams = spec.get('families', {})
    for item in [x.strip() for x in text.split(',') if x.strip()]:
        m = re.fullmatch(r'(\w+)(?:\(([^)]*)\))?', item)
        name, off = m.group(1), m.group(2) or 'PT0M'
        for t in fams.get(name, [name]):
            out[t] = offset_seconds(off)
    return out


# ---------------------------------------------------------------------------
# extra funnel: bracket TaskEventsManager.process_message

_WRAPPED = False


def wrap_process_message() -> None:
    """Emit `proc_msg` begin/end events around the handling of one task
    message (clock expiry is delivered as the internal message `expired`)."""
    global _WRAPPED
    if _WRAPPED:
        return
    _WRAPPED = True
    from cylc.flow.task_events_mgr import TaskEventsManager
    orig = TaskEventsManager.process_message

    def process_message(self, itask, severity, message, *a, **kw):
        w = _CUR[0]
        if w is not None:
            w.emit('proc_msg', phase='begin', itask=itask, message=message)
        try:
            return orig(self, itask, severity, message, *a, **kw)
        finally:
            if w is not None:
                w.emit('proc_msg', phase='end', itask=itask, message=message)
    TaskEventsManager.process_message = process_message


class ClockProfile(EarlyProfile):
    """EarlyProfile that starts every world at the virtual time EPOCH0
    (datetime cycle points are absolute, so the clock may not drift from one
    boot of the search to the next), and that can also advance the clock to
    one second *before* the next deadline (event ('jump', 'pre'))."""

    def make_world(self):
        if self._world is not None:
            self._world.dispose()
            self._world = None
        CLOCK.now = EPOCH0
        return super().make_world()

    def _next(self, w):
        from . import canon
        canon.world_canon(w, with_db=False)
        return canon.next_deadline(self.jump)

    def enabled(self, w):
        evs = super().enabled(w)
        if ('jump',) in evs:
            when = self._next(w)
            if when is not None and when - CLOCK.now > 2:
                evs.insert(evs.index(('jump',)) + 1, ('jump', 'pre'))
        return evs

    def apply(self, w, ev):
        if ev[0] == 'jump' and len(ev) > 1 and ev[1] == 'pre':
            when = self._next(w)
            if when is not None and when - 1 > CLOCK.now:
                CLOCK.now = when - 1
            w.resume()
            return
        return super().apply(w, ev)


def _ident(it) -> str:
    return f'{it.point}/{it.tdef.name}'


class ClockExpiry(Monitor):
    name = 'clock-expiry'

    def __init__(self):
        self.bad: List[dict] = []
        self.manual: Set[str] = set()        # named by a trigger command
        self.expired: Set[str] = set()       # seen to expire
        self.retriggered: Set[str] = set()   # triggered after expiring
        self.window: Optional[dict] = None

    def early_attach(self, w: World) -> None:
        wrap_process_message()
        self.w = w
        s = w.spec
        self.offsets = ref_offsets(s)
        self.ref = RefGraph(s['sections'], s['icp_i'], s['fcp_i'])
        self.base = point_seconds(s['icp'])
        if self.on_event not in w.listeners:
            w.listeners.append(self.on_event)

    def attach(self, w: World) -> None:
        self.early_attach(w)

    def key(self):
        return (tuple(sorted(self.manual)), tuple(sorted(self.expired)),
                tuple(sorted(self.retriggered)))

    # ------------------------------------------------------------------
    def _index(self, point: str) -> int:
        d = point_seconds(point) - self.base
        if d % HOUR:
            raise ValueError(f'off-grid cycle point {point}')
        return d // HOUR

    def _proxy(self, state):
        pool = getattr(self.w.schd, 'pool', None)
        if pool is None:
            return None
        for t in pool.get_tasks():
            if t.state is state:
                return t
        win = self.window
        if win is not None and win['itask'].state is state:
            return win['itask']
        return None

    def on_event(self, kind: str, data: dict) -> None:
        if kind == 'command':
            ok = bool(data['result'][0]) if data.get('result') else False
            if ok and data['name'] == 'force_trigger_tasks':
                pool = getattr(self.w.schd, 'pool', None)
                for tid in data['kwargs'].get('tasks', []):
                    it = pool._get_task_by_id(tid) if pool else None
                    if it is not None and it.state.status in ACTIVE:
                        # documented: triggering a task whose job is already
                        # in process has no effect
                        COUNTS.bump('trigger_commands_on_active_tasks')
                        continue
                    self.manual.add(tid)
                    if tid in self.expired:
                        self.retriggered.add(tid)
                COUNTS.bump('trigger_commands')
        elif kind == 'reset':
            b, a = data['before'][0], data['after'][0]
            if a == 'expired' and b != 'expired':
                self._expired(data, b)
        elif kind == 'cmd_start' and data['kind'] == 'jobs-submit':
            for (p, name, num) in data['jobs']:
                ident = f'{p}/{name}'
                COUNTS.bump('submissions')
                if ident in self.expired and ident not in self.retriggered:
                    self.bad.append(self.viol(
                        'expired-task-submitted',
                        f'{ident} expired earlier in this run and now '
                        f'submits job #{num}'))
        elif kind == 'proc_msg':
            if data['message'] != 'expired':
                return
            if data['phase'] == 'begin':
                self.window = {'itask': data['itask'], 'added': []}
            else:
                win, self.window = self.window, None
                if win is not None and _ident(win['itask']) in self.expired:
                    self._children(win)
        elif kind == 'add' and self.window is not None:
            self.window['added'].append(_ident(data['itask']))

    def _expired(self, data: dict, before: str) -> None:
        it = self._proxy(data['state'])
        if it is None:
            COUNTS.bump('unidentified_expiry')
            return
        ident = _ident(it)
        name = it.tdef.name
        now = CLOCK.now
        COUNTS.bump('expiries')
        self.expired.add(ident)
        if before != 'waiting':
            self.bad.append(self.viol(
                f'expired-from:{before}',
                f'{ident} expired while {before} (only waiting tasks may '
                'expire)'))
        if ident in self.manual:
            self.bad.append(self.viol(
                'expired-manually-triggered-task',
                f'{ident} was manually triggered and then clock-expired'))
        off = self.offsets.get(name)
        if off is None:
            self.bad.append(self.viol(
                'expired-without-clock-expire-offset',
                f'{ident} expired but {name} has no clock-expire setting '
                f'(offsets: {self.offsets})'))
            return
        t_exp = point_seconds(str(it.point)) + off
        if now < t_exp:
            self.bad.append(self.viol(
                'expired-before-expiry-time',
                f'{ident} expired at virtual time {now:.0f} '
                f'({_time.strftime("%Y-%m-%dT%H:%M:%SZ", _time.gmtime(now))})'
                f', {t_exp - now:.0f} s before its expiry time (cycle point '
                f'+ {off} s)'))
        elif now == t_exp:
            COUNTS.bump('expiries_exactly_at_expiry_time')
        else:
            COUNTS.bump('expiries_after_expiry_time')
        if data['before'][1]:
            COUNTS.bump('expiries_of_held_tasks')
        if data['before'][2]:
            COUNTS.bump('expiries_of_queued_tasks')
        if it.submit_num:
            COUNTS.bump('expiries_of_retrying_tasks')

    def _children(self, win: dict) -> None:
        it = win['itask']
        ident = _ident(it)
        want = {
            f'{point_str(p, self.base)}/{t}'
            for t, p in self.ref.children(
                (it.tdef.name, self._index(str(it.point)), 'expired'))}
        COUNTS.bump('expired_outputs_completed')
        if want:
            COUNTS.bump('expired_outputs_with_children')
        pool = self.w.schd.pool
        for x in win['added']:
            if x.split('/')[1] == it.tdef.name and x != ident:
                continue    # next instance of the same (parentless) task
            if x not in want:
                self.bad.append(self.viol(
                    'spawned-non-expire-child',
                    f'completing {ident}:expired spawned {x}, which does '
                    f'not depend on it (its :expire children: '
                    f'{sorted(want)})'))
        for c in sorted(want):
            ct = pool._get_task_by_id(c)
            if ct is None:
                self.bad.append(self.viol(
                    'expire-child-not-spawned',
                    f'{ident} expired but its :expire child {c} is not in '
                    'the pool afterwards'))
                continue
            COUNTS.bump('expire_children_checked')
            sat = [bool(v) for p in ct.state.prerequisites
                   for k, v in p.items()
                   if (str(k.point), str(k.task), str(k.output)) ==
                   (str(it.point), it.tdef.name, 'expired')]
            if not sat or not all(sat):
                self.bad.append(self.viol(
                    'expire-child-prerequisite-unsatisfied',
                    f'{ident} expired but the prerequisite of {c} on it is '
                    f'not satisfied ({sat})'))

    # ------------------------------------------------------------------
    def after(self, w: World, ev: tuple) -> List[dict]:
        out, self.bad = self.bad, []
        self.window = None
        if w.running:
            for t in w.schd.pool.get_tasks():
                if t.state.status != 'expired':
                    continue
                ident = _ident(t)
                if t.state.is_queued or (
                        t.waiting_on_job_prep
                        and ident not in self.retriggered):
                    out.append(self.viol(
                        'expired-task-in-submission-pipeline',
                        f'{ident} is expired but queued='
                        f'{t.state.is_queued} waiting_on_job_prep='
                        f'{t.waiting_on_job_prep} (after {ev[0]})'))
            # tasks whose expiry time has passed yet did not expire because
            # they are not eligible (vacuity counters only)
            for t in w.schd.pool.get_tasks():
                off = self.offsets.get(t.tdef.name)
                if off is None or t.state.status == 'expired':
                    continue
                t_exp = point_seconds(str(t.point)) + off
                if (t.state.status == 'waiting' and 0 < t_exp - CLOCK.now
                        <= 1.5 and _ident(t) not in self.manual):
                    COUNTS.bump('states_waiting_task_just_before_expiry')
                if CLOCK.now >= t_exp:
                    if _ident(t) in self.manual:
                        COUNTS.bump('states_manual_task_past_expiry_time')
                    elif t.state.status != 'waiting':
                        COUNTS.bump('states_active_task_past_expiry_time')
        COUNTS.flush()
        return out

    def terminal(self, w: World, kind: str) -> List[dict]:
        COUNTS.flush()
        return []
