"""C31: sequential tasks never overlap and run in cycle order.

Reference, from the statement and the catalogue term only:

    points(t)  = union of the points of the recurrences of every graph
                 section in which t appears (RefGraph.points)
    prev(t, p) = the latest q in points(t) with q < p      ("the previous
                 instance on its sequences")
    t@p may be submitted only if prev(t, p) does not exist, or is before the
    start point, or a job of t@prev really succeeded (environment truth).
    At no time are two instances of t active (preparing/submitted/running in
    the scheduler; launching/submitted/running in the environment).
"""
from __future__ import annotations

from typing import Dict, List, Optional, Set, Tuple

from .catalogue import RefGraph
from .mon_c04 import count, flush_counts
from .monitors import ACTIVE, env_done
from .profile import Monitor
from .world import World


def sequential_names(spec: dict) -> List[str]:
    txt = spec.get('special', {}).get('sequential', '')
    return sorted(n.strip() for n in txt.split(',') if n.strip())


class Sequential(Monitor):
    name = 'sequential'

    def __init__(self):
        self.bad: List[dict] = []

    def attach(self, w: World) -> None:
        super().attach(w)
        s = w.spec
        self.seq = sequential_names(s)
        self.start = int(s.get('start', s['icp']))
        self.ref = RefGraph(s['sections'], s['icp'], s['fcp'], s.get('start'))
        self.points: Dict[str, List[int]] = {
            t: sorted(self.ref.points.get(t, ())) for t in self.seq}

    def prev(self, task: str, p: int) -> Optional[int]:
        before = [q for q in self.points[task] if q < p]
        return max(before) if before else None

    # ------------------------------------------------------------- events
    def on_event(self, kind: str, data: dict) -> None:
        if kind != 'cmd_start' or data['kind'] != 'jobs-submit':
            return
        w = self.w
        done = env_done(w)
        for (p, name, num) in data['jobs']:
            if name not in self.points:
                continue
            pt = int(p)
            count('c31:sequential-submissions')
            q = self.prev(name, pt)
            if q is None:
                count('c31:first-instance')
                continue
            if q < self.start:
                count('c31:previous-before-start-point')
                continue
            count('c31:submissions-with-previous')
            if q != pt - 1:
                count('c31:previous-not-adjacent')
            if (name, q, 'succeeded') in done:
                continue
            jobs = sorted(
                (k, j.state) for (pp, nn, k), j in w.env.jobs.items()
                if nn == name and int(pp) == q)
            state = jobs[-1][1] if jobs else 'never-submitted'
            self.bad.append(self.viol(
                f'sequential-submitted-before-previous-succeeded:{state}',
                f'{p}/{name} (sequential, on points {self.points[name]}) '
                f'submitted but its previous instance {q}/{name} has not '
                f'succeeded: jobs of {q}/{name} = {jobs or "none"}'))

    # -------------------------------------------------------------- states
    def after(self, w: World, ev: tuple) -> List[dict]:
        out, self.bad = self.bad, []
        # environment view
        live: Dict[str, Set[int]] = {}
        for (p, n, _k), j in w.env.jobs.items():
            if n in self.points and j.live:
                live.setdefault(n, set()).add(int(p))
        for n, pts in sorted(live.items()):
            if len(pts) > 1:
                out.append(self.viol(
                    'sequential-instances-active-together:jobs',
                    f'jobs of sequential task {n} are live at points '
                    f'{sorted(pts)} at the same time'))
        if w.running:
            act: Dict[str, List[str]] = {}
            for it in w.schd.pool.get_tasks():
                if it.tdef.name in self.points and \
                        it.state.status in ACTIVE:
                    act.setdefault(it.tdef.name, []).append(
                        f'{it.point}:{it.state.status}')
            for n, insts in sorted(act.items()):
                if len(insts) > 1:
                    out.append(self.viol(
                        'sequential-instances-active-together:pool',
                        f'instances of sequential task {n} active together '
                        f'in the pool: {sorted(insts)}'))
                elif insts:
                    count('c31:states-with-an-active-instance')
        flush_counts()
        return out

    # ------------------------------------------------------------ terminal
    def terminal(self, w: World, kind: str) -> List[dict]:
        count('c31:terminals')
        try:
            return self._terminal(w, kind)
        finally:
            flush_counts()

    def _terminal(self, w: World, kind: str) -> List[dict]:
        if any(j.live for j in w.env.jobs.values()) or w.env.pending():
            if kind.startswith('quiescent'):
                return []
        out = []
        states: Dict[Tuple[str, int], str] = {}
        for (p, n, k), j in sorted(w.env.jobs.items()):
            states[(n, int(p))] = j.state       # highest submit number last
        failed = sorted(i for i, s in states.items() if s != 'succeeded')
        # cycle order: what ran is a prefix of the task's points
        for t in self.seq:
            pts = [p for p in self.points[t] if p >= self.start]
            ran = [p for p in pts if (t, p) in states]
            if ran != pts[:len(ran)]:
                out.append(self.viol(
                    'sequential-instances-ran-out-of-order',
                    f'sequential task {t} has points {pts} but the instances'
                    f' that ran are {ran} (not a prefix)'))
        if failed:
            count('c31:terminals-with-failure')
            # nothing of a sequential task after its failed instance
            for (t, p) in failed:
                if t in self.points:
                    later = [q for q in self.points[t]
                             if q > p and (t, q) in states]
                    if later:
                        out.append(self.viol(
                            'sequential-ran-after-failed-instance',
                            f'{p}/{t} failed but later instances {later} '
                            'ran'))
            return out
        count('c31:terminals-all-succeeded')
        # not a verdict (the statement is a safety property): measure that
        # all-success runs are complete, so that the checks above are not
        # satisfied merely because nothing is ever submitted
        _S, R, _M = self.ref.closure(
            lambda t, p: {'submitted', 'started', 'succeeded'})
        if R - set(states) or kind != 'stopped:AUTO':
            count('c31:terminals-all-succeeded-but-incomplete')
        else:
            count('c31:terminals-all-succeeded-and-complete')
        return out
