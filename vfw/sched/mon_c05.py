"""C05 monitor: internal queue limits, membership and release order.

Reference (from the property statement, computed from the catalogue spec and
the operator command log only):

* owner(task name) = the last queue of `spec['queues']` (file order) whose
  member list names the task or a family containing it, else `default`;
* a queue *release* (a task leaves the queue through
  `TaskPool.release_queued_tasks`) is allowed only while the number of the
  queue's other members that are preparing / submitted / running / released
  and awaiting job preparation is below the limit (limit 0 = unlimited);
* the released task must not be held and must be the oldest entry of the
  queue's FIFO that is not held (FIFO = the order of is_queued False->True
  events);
* after every transition: active members minus manually triggered instances
  <= limit.
"""
from __future__ import annotations

import json
import os
from typing import Dict, List, Optional, Tuple

from .profile import Monitor, OpProfile
from .world import World, _CUR

ACTIVE = ('preparing', 'submitted', 'running')
DEFAULT_LIMIT = 100     # documented default of [queues][default]limit


# ---------------------------------------------------------------------------
# counters that survive the search-worker processes (vacuity guards)

class Counters:
    """Per-process counters flushed to <scratch>/<tag>-<pid>.json."""

    def __init__(self, tag: str):
        self.tag = tag
        self.c: Dict[str, int] = {}
        self.dirty = False
        self.pid = None

    def bump(self, name: str, n: int = 1) -> None:
        if self.pid != os.getpid():
            # forked child: start from zero (the parent's counts are its own)
            self.pid = os.getpid()
            self.c = {}
        self.c[name] = self.c.get(name, 0) + n
        self.dirty = True

    def flush(self) -> None:
        if not self.dirty or self.pid != os.getpid():
            return
        from ..core import scratch_root
        path = scratch_root() / f'{self.tag}-{os.getpid()}.json'
        tmp = path.with_suffix('.tmp')
        tmp.write_text(json.dumps(self.c))
        os.replace(tmp, path)
        self.dirty = False

    def collect(self, scratch) -> Dict[str, int]:
        """Sum of all processes' counters (call in the parent, after the
        exploration); removes the files."""
        total: Dict[str, int] = {}
        for p in sorted(scratch.glob(f'{self.tag}-*.json')):
            try:
                for k, v in json.loads(p.read_text()).items():
                    total[k] = total.get(k, 0) + int(v)
            finally:
                p.unlink()
        return total


COUNTS = Counters('c05-counters')


# ---------------------------------------------------------------------------
# extra funnel: bracket TaskPool.release_queued_tasks

_WRAPPED = False


def wrap_release() -> None:
    """Emit `qrelease` begin/end events around the queue release step."""
    global _WRAPPED
    if _WRAPPED:
        return
    _WRAPPED = True
    from cylc.flow.task_pool import TaskPool
    orig = TaskPool.release_queued_tasks

    def release_queued_tasks(self):
        w = _CUR[0]
        if w is not None:
            w.emit('qrelease', phase='begin')
        try:
            return orig(self)
        finally:
            if w is not None:
                w.emit('qrelease', phase='end')
    TaskPool.release_queued_tasks = release_queued_tasks


class EarlyProfile(OpProfile):
    """OpProfile whose monitors listen from before the first boot (private
    copy of Profile.make_world/OpProfile.make_world with one extra step)."""

    def make_world(self):
        if self._world is not None:
            self._world.dispose()
        w = self._world = World(self.wid, self.flow_text, self.options,
                                self.spec.get('global_text', ''))
        w.spec = self.spec
        w.op_count = 0
        w.op_log = []
        w.n_stops = 0
        for m in self.monitors:
            if hasattr(m, 'early_attach'):
                m.early_attach(w)
        w.boot()
        return w


# ---------------------------------------------------------------------------
# reference membership

def task_names(spec: dict) -> List[str]:
    names = set()
    for _rec, items in spec['sections']:
        for it in items:
            if it[0] == 'node':
                names.add(it[1])
            else:
                names.add(it[2])
                stack = [it[1]]
                while stack:
                    e = stack.pop()
                    if e[0] == 'atom':
                        names.add(e[1])
                    else:
                        stack.extend(e[1:])
    return sorted(names)


def ref_queues(spec: dict) -> Tuple[Dict[str, str], Dict[str, int]]:
    """(owner: task name -> queue name, limit: queue name -> limit)."""
    fams = spec.get('families', {})
    names = task_names(spec)
    owner = {t: 'default' for t in names}
    limit = {'default': DEFAULT_LIMIT}
    for qn, q in spec.get('queues', {}).items():
        limit[qn] = int(q['limit'])
        if qn == 'default':
            continue
        for m in q.get('members', []):
            for t in fams.get(m, [m]):
                if t in owner:
                    owner[t] = qn
    return owner, limit


def _ident(it) -> str:
    return f'{it.point}/{it.tdef.name}'


def _is_active(it) -> bool:
    return it.state.status in ACTIVE or bool(it.waiting_on_job_prep)


class QueueLimits(Monitor):
    name = 'queue-limits'

    def __init__(self):
        self.bad: List[dict] = []
        # queue -> [(ident, skipped_while_held)] oldest first
        self.fifo: Dict[str, List[Tuple[str, bool]]] = {}
        self.manual = set()          # idents named by a trigger command
        self.in_release = False

    def early_attach(self, w: World) -> None:
        """Listen from before the boot (tasks are queued, and the first
        release happens, inside the first main-loop iteration)."""
        wrap_release()
        self.w = w
        self.owner, self.limit = ref_queues(w.spec)
        if self.on_event not in w.listeners:
            w.listeners.append(self.on_event)

    def attach(self, w: World) -> None:
        self.early_attach(w)

    def key(self):
        return (
            tuple(sorted((q, tuple(v)) for q, v in self.fifo.items() if v)),
            tuple(sorted(self.manual)),
        )

    # ------------------------------------------------------------------
    def _proxy(self, state):
        schd = self.w.schd
        pool = getattr(schd, 'pool', None)
        if pool is None:
            return None
        for t in pool.get_tasks():
            if t.state is state:
                return t
        return None

    def _drop(self, ident: str) -> Optional[str]:
        for q, lst in self.fifo.items():
            for i, (x, _s) in enumerate(lst):
                if x == ident:
                    del lst[i]
                    return q
        return None

    def on_event(self, kind: str, data: dict) -> None:
        if kind == 'qrelease':
            self.in_release = data['phase'] == 'begin'
        elif kind == 'command':
            ok = bool(data['result'][0]) if data.get('result') else False
            if ok and data['name'] == 'force_trigger_tasks':
                pool = getattr(self.w.schd, 'pool', None)
                for tid in data['kwargs'].get('tasks', []):
                    it = pool._get_task_by_id(tid) if pool else None
                    if it is not None and it.state.status in ACTIVE:
                        # documented: triggering a task whose job is already
                        # in process has no effect
                        continue
                    self.manual.add(tid)
                COUNTS.bump('trigger_commands')
            elif ok and data['name'] == 'hold':
                COUNTS.bump('hold_commands')
            elif ok and data['name'] == 'release':
                COUNTS.bump('release_commands')
        elif kind == 'remove':
            self._drop(_ident(data['itask']))
        elif kind == 'reset':
            b, a = data['before'], data['after']
            if b[2] == a[2]:
                return
            it = self._proxy(data['state'])
            if it is None:
                COUNTS.bump('unidentified_queue_events')
                return
            ident = _ident(it)
            q = self.owner.get(it.tdef.name, 'default')
            if a[2]:
                self._drop(ident)
                self.fifo.setdefault(q, []).append((ident, False))
                COUNTS.bump('queued')
            elif self.in_release:
                self._released(it, ident, q, held=bool(b[1]))
            else:
                # left the queue some other way (manual trigger, expiry ...)
                self._drop(ident)
                COUNTS.bump('dequeued_not_by_release')

    def _released(self, it, ident: str, q: str, held: bool) -> None:
        COUNTS.bump('releases')
        pool = self.w.schd.pool
        L = self.limit.get(q, 0)
        by_id = {_ident(t): t for t in pool.get_tasks()}
        if held:
            self.bad.append(self.viol(
                'released-while-held',
                f'{ident} was released from queue {q!r} while held'))
        # ---- limit at the moment of release
        others = [t for t in pool.get_tasks()
                  if t is not it
                  and self.owner.get(t.tdef.name, 'default') == q
                  and _is_active(t)]
        if L > 0 and len(others) >= L:
            jobs = [t for t in others if t.state.status in ACTIVE]
            why = ('active-jobs' if len(jobs) >= L
                   else 'counting-released-awaiting-preparation')
            self.bad.append(self.viol(
                f'released-at-limit:{why}',
                f'queue {q!r} (limit {L}) released {ident} while '
                f'{sorted(_ident(t) + ":" + t.state.status for t in others)}'
                ' of its members are preparing/submitted/running/awaiting '
                'job preparation'))
        if L > 0 and len(others) == L - 1:
            COUNTS.bump('releases_filling_last_slot')
        # ---- order
        lst = self.fifo.get(q, [])
        pos = next((i for i, (x, _s) in enumerate(lst) if x == ident), None)
        if pos is None:
            self.bad.append(self.viol(
                'released-from-foreign-queue',
                f'{ident} was released but the reference FIFO of its queue '
                f'{q!r} does not contain it (FIFOs: {self.fifo})'))
            return
        for i in range(pos):
            x, skipped = lst[i]
            t = by_id.get(x)
            if t is not None and t.state.is_held:
                if not skipped:
                    lst[i] = (x, True)
                COUNTS.bump('held_entries_skipped')
                continue
            why = ('previously-skipped-while-held' if skipped
                   else 'never-held')
            self.bad.append(self.viol(
                f'release-order:overtook-{why}-entry',
                f'queue {q!r} released {ident} before {x}, which was queued '
                f'earlier and is not held (queueing order: '
                f'{[e for e, _ in lst]})'))
            break
        del lst[pos]

    # ------------------------------------------------------------------
    def after(self, w: World, ev: tuple) -> List[dict]:
        out, self.bad = self.bad, []
        self.in_release = False
        if w.running:
            out.extend(self._state(w, ev))
        COUNTS.flush()
        return out

    def _state(self, w: World, ev: tuple) -> List[dict]:
        out = []
        pool = w.schd.pool
        tasks = pool.get_tasks()
        per_q: Dict[str, list] = {}
        for t in tasks:
            if _is_active(t):
                per_q.setdefault(
                    self.owner.get(t.tdef.name, 'default'), []).append(t)
        for q, act in sorted(per_q.items()):
            L = self.limit.get(q, 0)
            if L <= 0:
                COUNTS.bump('unlimited_queue_states')
                continue
            auto = [t for t in act if _ident(t) not in self.manual]
            if len(act) > L:
                COUNTS.bump('states_over_limit_by_manual_trigger'
                            if len(auto) <= L else 'states_over_limit')
            if len(act) == L:
                COUNTS.bump('states_at_limit')
            if len(auto) > L:
                out.append(self.viol(
                    f'limit-exceeded:by={len(auto) - L}',
                    f'queue {q!r} (limit {L}) has '
                    f'{sorted(_ident(t) + ":" + t.state.status for t in act)}'
                    f' active; manually triggered: {sorted(self.manual)} '
                    f'(after {ev[0]})'))
        # "released in the order they were queued, skipping held ones": after
        # a main-loop iteration of its own (tick) a limited queue with a free
        # slot cannot still hold a queued member that is not held
        if ev[0] == 'tick' and not w.schd.is_paused and \
                w.schd.stop_mode is None:
            for q, L in sorted(self.limit.items()):
                if L <= 0:
                    continue
                n_act = len(per_q.get(q, []))
                left = sorted(
                    _ident(t) for t in tasks
                    if t.state.is_queued and not t.state.is_held
                    and self.owner.get(t.tdef.name, 'default') == q)
                if n_act < L and left:
                    held = sorted(
                        _ident(t) for t in tasks
                        if t.state.is_queued and t.state.is_held
                        and self.owner.get(t.tdef.name, 'default') == q)
                    out.append(self.viol(
                        'free-slot-but-unheld-member-left-queued'
                        + (':behind-held-members' if held else ''),
                        f'queue {q!r} (limit {L}) has {n_act} active '
                        f'member(s) after a main-loop iteration, yet {left} '
                        f'stay queued and are not held (held queued '
                        f'members: {held})'))
                elif left:
                    COUNTS.bump('queued_members_waiting_for_a_slot')
        # membership as the scheduler applies it: a queued task sits in the
        # deque of exactly its owner queue; an unqueued one in none
        tqm = pool.task_queue_mgr
        where: Dict[str, List[str]] = {}
        for qn, qobj in tqm.queues.items():
            for t in qobj.deque:
                where.setdefault(_ident(t), []).append(qn)
        for t in tasks:
            ident = _ident(t)
            got = sorted(where.pop(ident, []))
            want = [self.owner.get(t.tdef.name, 'default')] \
                if t.state.is_queued else []
            if got != want:
                kind = ('in-several-queues' if len(got) > 1 else
                        'queued-flag-without-queue-entry' if not got else
                        'queue-entry-without-queued-flag' if not want else
                        'in-wrong-queue')
                out.append(self.viol(
                    f'membership:{kind}',
                    f'{ident} (is_queued={t.state.is_queued}) sits in '
                    f'queue(s) {got}; by "last queue that lists it, else '
                    f'default" it belongs to {want or "no queue now"} '
                    f'(after {ev[0]})'))
        for ident, got in sorted(where.items()):
            out.append(self.viol(
                'membership:queue-entry-not-in-pool',
                f'{ident} sits in queue(s) {got} but is not in the pool'))
        return out

    def terminal(self, w: World, kind: str) -> List[dict]:
        COUNTS.flush()
        return []
