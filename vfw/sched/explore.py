"""Explicit-state depth-first exploration of the real Scheduler.

Stateless search with a visited set: a state is identified by the canonical
hash of the World; to return to a state the path reaching it is re-executed
from a fresh boot (live objects cannot be copied, and fork()+copy-on-write is
pathologically slow in this sandbox). The live World is carried forward as far
as possible (self-loop events leave it usable, the first state-changing event
consumes it), so a replay is paid only for the 2nd, 3rd... state-changing
event of a node. Every replay re-checks the recorded state hash at its end:
any divergence is a hard harness error (nondeterminism), never a verdict.
"""
from __future__ import annotations

import traceback
from typing import Any, Dict, List, Optional, Tuple

from . import harness as H
from .canon import digest, world_canon


class ExploreError(Exception):
    pass


class Stats:
    def __init__(self):
        self.states = 0
        self.transitions = 0
        self.replays = 0            # prefix re-executions (validated)
        self.replay_steps = 0
        self.terminals: Dict[str, int] = {}
        self.violations: List[dict] = []
        self.max_depth = 0
        self.capped = False
        self.cap_reason = ''
        self.samples: List[Any] = []
        self.counters: Dict[str, int] = {}
        self.error: Optional[str] = None
        self.workflows = 0

    def merge(self, other: 'Stats') -> None:
        self.states += other.states
        self.transitions += other.transitions
        self.replays += other.replays
        self.replay_steps += other.replay_steps
        self.workflows += other.workflows
        for k, v in other.terminals.items():
            self.terminals[k] = self.terminals.get(k, 0) + v
        self.violations.extend(other.violations)
        self.max_depth = max(self.max_depth, other.max_depth)
        self.capped = self.capped or other.capped
        if other.cap_reason:
            self.cap_reason = other.cap_reason
        if len(self.samples) < 6:
            self.samples.extend(other.samples[:2])
        for k, v in other.counters.items():
            self.counters[k] = self.counters.get(k, 0) + v
        if other.error and not self.error:
            self.error = other.error


ENV_EVENTS = ('cmd', 'job', 'jump', 'deliver', 'dup', 'stale', 'restart',
              'crash')


class Explorer:
    """profile API:
        make_world() -> World (booted, at its first boundary)
        enabled(world) -> [event tuples] in canonical order (tick first)
        apply(world, event) -> None   (event + scheduler run)
        monitors: .attach(world), .after(world, event) -> [viol],
                  .terminal(world, kind) -> [viol], .key() -> hashable
        extra_key(world) -> hashable ; terminal_kind(world) -> str
    """

    def __init__(self, profile, max_states=5000, max_seconds=300,
                 max_violations=5, max_depth=150):
        self.p = profile
        self.max_states = max_states
        self.max_seconds = max_seconds
        self.max_violations = max_violations
        self.max_depth = max_depth
        self.st = Stats()
        self.visited = set()
        self.t0 = H._ORIG_TIME()

    # ------------------------------------------------------------ helpers
    def _key(self, w) -> str:
        extra = (self.p.extra_key(w),
                 tuple(m.key() for m in self.p.monitors))
        return digest(world_canon(w, extra=extra))

    def _boot(self):
        p = self.p
        p.fresh_monitors()
        w = p.make_world()
        for m in p.monitors:
            m.attach(w)
        viols = []
        for m in p.monitors:
            viols.extend(m.after(w, ('boot',)))
        w.events.clear()
        return w, viols

    def _step(self, w, ev, want_key=True):
        w.events.clear()
        self.p.apply(w, ev)
        viols = []
        for m in self.p.monitors:
            viols.extend(m.after(w, ev))
        w.events.clear()
        return (self._key(w) if want_key else None), viols

    def _visit(self, key: str, depth: int) -> bool:
        st = self.st
        if st.capped or len(st.violations) >= self.max_violations:
            return False
        if key in self.visited:
            return False
        self.visited.add(key)
        st.states += 1
        st.max_depth = max(st.max_depth, depth)
        if st.states >= self.max_states:
            st.capped = True
            st.cap_reason = f'max_states={self.max_states}'
        elif H._ORIG_TIME() - self.t0 > self.max_seconds:
            st.capped = True
            st.cap_reason = f'max_seconds={self.max_seconds}'
        return True

    def _report(self, v: dict, path: list, w, terminal=None) -> None:
        v = dict(v)
        v['events'] = _jsonable(path)
        v['flow'] = w.flow_text
        v['options'] = _jsonable(w.options)
        if terminal:
            v['terminal'] = terminal
        self.st.violations.append(v)

    def _terminal(self, w, path, kind) -> None:
        for m in self.p.monitors:
            for v in m.terminal(w, kind):
                self._report(v, path, w, terminal=kind)
        st = self.st
        st.terminals[kind] = st.terminals.get(kind, 0) + 1
        if len(st.samples) < 3:
            st.samples.append({'terminal': kind, 'events': _jsonable(path)})

    def _replay(self, path: list, want: str):
        """Fresh boot + re-execution of path; must end in state `want`."""
        w, viols = self._boot()
        for ev in path:
            _, v2 = self._step(w, ev, want_key=False)
            viols.extend(v2)
        key = self._key(w)
        self.st.replays += 1
        self.st.replay_steps += len(path)
        if key != want or viols:
            raise ExploreError(
                'nondeterministic replay: re-executing the event prefix '
                f'{path!r} gave state {key} (violations: {len(viols)}) '
                f'instead of the recorded {want}')
        return w

    # --------------------------------------------------------------- search
    def run(self) -> Stats:
        st = self.st
        st.workflows = 1
        try:
            w, viols = self._boot()
            key = self._key(w)
            self._visit(key, 0)
            if viols:
                for v in viols:
                    self._report(v, [('boot',)], w)
                return st
            todo: List[Tuple[list, str, tuple]] = []
            self._expand(w, [], key, todo)
            while todo and not st.capped and (
                    len(st.violations) < self.max_violations):
                path, key, ev = todo.pop()
                w = self._replay(path, key)
                self._expand(w, path, key, todo, only=ev)
        except ExploreError as exc:
            st.error = str(exc)
        except Exception:
            st.error = traceback.format_exc()
        return st

    def _expand(self, w, path: list, key: str, todo: list, only=None) -> None:
        """Carry the live world `w` (positioned at `path`, state `key`)
        forward as far as possible; queue the other events for replay."""
        st = self.st
        while True:
            if len(path) > self.max_depth:
                raise ExploreError(
                    f'depth {len(path)} exceeds max_depth={self.max_depth}: '
                    f'non-converging path ending {path[-6:]!r}')
            if only is not None:
                events = [only]
            else:
                events = self.p.enabled(w)
                if not events:
                    self._terminal(w, path, self.p.terminal_kind(w))
                    return
            quiet = only is None and not any(
                e[0] in ENV_EVENTS for e in events)
            pre_kind = self.p.terminal_kind(w)
            moved = False
            for i, ev in enumerate(events):
                nkey, viols = self._step(w, ev)
                st.transitions += 1
                if viols:
                    for v in viols:
                        self._report(v, path + [ev], w)
                    for e2 in reversed(events[i + 1:]):
                        todo.append((path, key, e2))
                    return
                if nkey == key:
                    continue          # self-loop: w still stands for `key`
                # state changed: the live world is consumed by this event
                for e2 in reversed(events[i + 1:]):
                    todo.append((path, key, e2))
                if not self._visit(nkey, len(path) + 1):
                    return
                path = path + [ev]
                key = nkey
                moved = True
                break
            if not moved:
                if quiet:
                    # nothing pending in the environment and every enabled
                    # event is a self-loop: quiescent
                    self._terminal(w, path, 'quiescent:' + pre_kind)
                return
            only = None


def _jsonable(x):
    if isinstance(x, (list, tuple)):
        return [_jsonable(i) for i in x]
    if isinstance(x, dict):
        return {str(k): _jsonable(v) for k, v in x.items()}
    if isinstance(x, (str, int, float, bool)) or x is None:
        return x
    return str(x)


def _tuplify(x):
    if isinstance(x, list):
        return tuple(_tuplify(i) for i in x)
    return x


def linear_replay(profile, path: list, terminal: Optional[str] = None):
    """Re-execute one path linearly (no search). Returns violations."""
    ex = Explorer(profile)
    w, viols = ex._boot()
    if viols:
        return viols
    for ev in path:
        ev = _tuplify(ev)
        if ev == ('boot',):
            continue
        _, v2 = ex._step(w, ev)
        if v2:
            return v2
    if terminal:
        for m in profile.monitors:
            viols.extend(m.terminal(w, terminal))
    return viols


# ---------------------------------------------------------------------------
# parallel search: shared visited set + work queue in a manager process

class Shared:
    """Lives in a multiprocessing manager process."""

    def __init__(self, n_profiles, max_states, max_seconds, max_violations):
        self.visited = [set() for _ in range(n_profiles)]
        self.todo = []                  # LIFO of (idx, path, key, ev)
        self.active = 0
        self.max_states = max_states
        self.max_seconds = max_seconds
        self.max_violations = max_violations
        self.t0 = H._ORIG_TIME()
        self.capped = [''] * n_profiles
        self.nviol = [0] * n_profiles
        self.failed = ''

    def visit(self, idx, key):
        if self.capped[idx] or self.nviol[idx] >= self.max_violations:
            return False
        v = self.visited[idx]
        if key in v:
            return False
        v.add(key)
        if len(v) >= self.max_states:
            self.capped[idx] = f'max_states={self.max_states}'
        elif H._ORIG_TIME() - self.t0 > self.max_seconds:
            self.capped[idx] = f'max_seconds={self.max_seconds}'
        return True

    def violation(self, idx):
        self.nviol[idx] += 1

    def push(self, items):
        self.todo.extend(items)

    def pop(self):
        """-> item | 'wait' | 'done' ; a popped item makes the caller
        active until it calls finish()."""
        if self.failed:
            return 'done'
        while self.todo:
            it = self.todo.pop()
            idx = it[0]
            if self.capped[idx] or self.nviol[idx] >= self.max_violations:
                continue
            self.active += 1
            return it
        return 'done' if self.active == 0 else 'wait'

    def finish(self):
        self.active -= 1

    def fail(self, msg):
        self.failed = msg

    def summary(self):
        return ([len(v) for v in self.visited], list(self.capped),
                self.failed)


class SharedExplorer(Explorer):
    """Explorer whose visited set and caps live in a Shared object."""

    def __init__(self, profile, idx, shared):
        super().__init__(profile)
        self.idx = idx
        self.shared = shared

    def _visit(self, key, depth):
        new = self.shared.visit(self.idx, key)
        if new:
            self.st.states += 1
            self.st.max_depth = max(self.st.max_depth, depth)
        return new

    def _report(self, v, path, w, terminal=None):
        super()._report(v, path, w, terminal)
        self.shared.violation(self.idx)

    def work(self, item) -> None:
        idx, path, key, ev = item
        todo: List[Tuple[list, str, tuple]] = []
        if key is None:
            w, viols = self._boot()
            key = self._key(w)
            self._visit(key, 0)
            if viols:
                for v in viols:
                    self._report(v, [('boot',)], w)
                return
            self._expand(w, [], key, todo)
        else:
            w = self._replay(path, key)
            self._expand(w, path, key, todo, only=ev)
        if todo:
            self.shared.push([(idx, p, k, e) for p, k, e in todo])
