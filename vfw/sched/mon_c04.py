"""C04: runahead limit respected, never starves a completable run.

Reference (RefRunahead), written from the property statement only:

    base  = earliest cycle point present in the pool
    pts   = union of the points of *all* recurrences of the workflow
            (catalogue term -> ref_recurrence), within [ICP, FCP]
    Pn    : limit = the (n+1)-th earliest element of {p in pts : p >= base}
            (if there are fewer, nothing on the recurrences is beyond it)
    dur D : limit = the latest element of {p in pts : base <= p <= base + D}
    limit += largest future-trigger offset among the tasks in the pool
             (from the term: positive offsets on the left of `=> task`)
    limit  = min(limit, stop point)     stop point = `stop after cycle point`
             / last processed `stop --cycle-point` command / final point

Everything is computed from scratch at every observed release, in *reference
units*: integer cycle points, or whole hours since the initial point for the
datetime catalogue entries (whose graph term is written in hours).
"""
from __future__ import annotations

import json
import os
from datetime import datetime
from typing import Dict, List, Optional, Set, Tuple

from .catalogue import RefGraph, atoms, ref_recurrence
from .profile import Monitor, OpProfile, Profile
from .world import World

# --------------------------------------------------------------------------
# seam counters (vacuity guards): per-process cumulative counts flushed to a
# scratch directory chosen by the property module before the workers fork.

COUNTER_DIR: Optional[str] = None
_COUNTS: Dict[str, int] = {}
_DIRTY = [False]


def count(name: str, n: int = 1) -> None:
    _COUNTS[name] = _COUNTS.get(name, 0) + n
    _DIRTY[0] = True


def flush_counts() -> None:
    if COUNTER_DIR is None or not _DIRTY[0]:
        return
    _DIRTY[0] = False
    path = os.path.join(COUNTER_DIR, f'{os.getpid()}.json')
    tmp = path + '.tmp'
    with open(tmp, 'w') as fh:
        json.dump(_COUNTS, fh)
    os.replace(tmp, path)


def read_counts(dirname: str) -> Dict[str, int]:
    out: Dict[str, int] = {}
    for fn in sorted(os.listdir(dirname)):
        if not fn.endswith('.json'):
            continue
        with open(os.path.join(dirname, fn)) as fh:
            for k, v in json.load(fh).items():
                out[k] = out.get(k, 0) + v
    return out


# --------------------------------------------------------------------------
# reference units

def to_ref(spec: dict, point) -> int:
    """Cycle point (cylc object or string) -> reference unit."""
    s = str(point)
    if spec.get('cycling', 'integer') == 'integer':
        return int(s)
    t = datetime.strptime(s, '%Y%m%dT%H%MZ')
    t0 = datetime.strptime(str(spec['icp']), '%Y%m%dT%H%MZ')
    secs = (t - t0).total_seconds()
    if secs % 3600:
        raise ValueError(f'point {s} is not a whole hour from the ICP')
    return int(secs // 3600)


def ref_bounds(spec: dict) -> Tuple[int, int]:
    if spec.get('cycling', 'integer') == 'integer':
        return int(spec['icp']), int(spec['fcp'])
    return 0, to_ref(spec, spec['fcp'])


def parse_limit(text: str) -> Tuple[str, int]:
    """'P3' -> ('count', 3); 'PT12H' -> ('hours', 12); 'P1D' -> 24 h."""
    if text.startswith('PT') and text.endswith('H'):
        return 'hours', int(text[2:-1])
    if text.startswith('P') and text.endswith('D'):
        return 'hours', 24 * int(text[1:-1])
    if text.startswith('P') and text[1:].isdigit():
        return 'count', int(text[1:])
    raise ValueError(f'catalogue runahead limit not supported: {text}')


def all_points(spec: dict) -> List[int]:
    """Union of the points of every recurrence of the workflow."""
    lo, hi = ref_bounds(spec)
    pts: Set[int] = set()
    for rec, _items in spec['sections']:
        pts.update(ref_recurrence(rec, lo, hi))
    return sorted(pts)


def future_offsets(spec: dict) -> Dict[str, int]:
    """task -> its largest future-trigger offset (term; absent if none)."""
    out: Dict[str, int] = {}
    for _rec, items in spec['sections']:
        for it in items:
            if it[0] != 'edge':
                continue
            for a in atoms(it[1]):
                if a[2] > 0:
                    out[it[2]] = max(out.get(it[2], 0), a[2])
    return out


def ref_runahead(spec: dict, pool: List[Tuple[str, int]],
                 stop: int) -> Tuple[int, dict]:
    """RefRunahead(pool now) -> (limit, explanation)."""
    kind, n = parse_limit(spec.get('scheduling', {}).get(
        'runahead limit', 'P4'))          # cylc's documented default is P4
    base = min(p for _t, p in pool)
    cand = [p for p in all_points(spec) if p >= base]
    if kind == 'count':
        if len(cand) > n:
            raw = cand[n]
        else:
            # fewer than n+1 points remain: no point of any recurrence is
            # beyond the limit
            raw = max(cand + [base, ref_bounds(spec)[1]])
    else:
        within = [p for p in cand if p <= base + n]
        raw = max(within) if within else base
    fut = future_offsets(spec)
    ext = max([fut[t] for t, _p in pool if t in fut], default=0)
    lim = min(raw + ext, stop)
    return lim, {'base': base, 'raw': raw, 'future': ext, 'stop': stop,
                 'capped': raw + ext > stop}


# --------------------------------------------------------------------------
def render_hours(sections) -> Dict[str, str]:
    """Render an hours-based term as a datetime-cycling graph."""
    def rec_text(rec):
        if rec == 'R1':
            return 'R1'
        if rec.startswith('+P') and '/P' in rec:
            off, step = rec[2:].split('/P')
            return f'+PT{off}H/PT{step}H'
        if rec.startswith('P') and rec[1:].isdigit():
            return f'PT{rec[1:]}H'
        raise ValueError(rec)

    def atom(a):
        _, task, off, out, opt = a
        s = task
        if off:
            s += f"[{'+' if off > 0 else '-'}PT{abs(off)}H]"
        if out != 'succeeded':
            raise ValueError('hours catalogue: success triggers only')
        return s

    def expr(e):
        if e[0] == 'atom':
            return atom(e)
        return f'({expr(e[1])} {e[0]} {expr(e[2])})'

    out: Dict[str, str] = {}
    for rec, items in sections:
        lines = []
        for it in items:
            if it[0] == 'node':
                lines.append(it[1])
            else:
                lines.append(f'{expr(it[1])} => {it[2]}')
        key = rec_text(rec)
        text = '\n'.join(lines)
        out[key] = (out[key] + '\n' + text) if key in out else text
    return out


# --------------------------------------------------------------------------
# profiles whose monitors are listening *during* boot (the start-up spawning
# out to the runahead limit happens before the first main-loop boundary)

def _early_world(prof) -> World:
    if prof._world is not None:
        prof._world.dispose()
    w = prof._world = World(prof.wid, prof.flow_text, prof.options,
                            prof.spec.get('global_text', ''))
    w.spec = prof.spec
    for m in prof.monitors:
        if getattr(m, 'early', False):
            m.attach(w)
    w.boot()
    return w


class EarlyProfile(Profile):
    def make_world(self):
        return _early_world(self)


class EarlyOpProfile(OpProfile):
    def make_world(self):
        w = _early_world(self)
        w.op_count = 0
        w.op_log = []
        w.n_stops = 0
        return w


def _proxy_of(w: World, state):
    pool = getattr(w.schd, 'pool', None)
    if pool is None:
        return None
    for bucket in pool.active_tasks.values():
        for t in bucket.values():
            if t.state is state:
                return t
    return None


def _pool_tasks(w: World):
    pool = getattr(w.schd, 'pool', None)
    if pool is None:
        return []
    return [t for bucket in pool.active_tasks.values()
            for t in bucket.values()]


_CALLERS = {
    '_force_trigger_tasks': 'trigger-command',
    '_remove_matched_tasks': 'remove-command',
    'reload_workflow': 'reload-command',
    'load_from_point': 'start-up',
    '_main_loop': 'main-loop',
}


def _where() -> str:
    """Which part of the scheduler performed the release (observation of the
    call stack at the moment of the offending release)."""
    import sys
    f = sys._getframe()
    while f is not None:
        tag = _CALLERS.get(f.f_code.co_name)
        if tag is not None and 'cylc' in f.f_code.co_filename:
            return tag
        f = f.f_back
    return 'elsewhere'


def _targets(kwargs) -> List[Tuple[str, str]]:
    out = []
    for tid in kwargs.get('tasks', []) or []:
        parts = tid.split('/')
        if len(parts) >= 2:
            out.append((parts[1].split(':')[0], parts[0]))
    return out


class RunaheadLimit(Monitor):
    """Every release from the runahead pool is within RefRunahead(pool now);
    all-success runs finish: shut down by themselves with every instance of
    the reference closure run."""
    name = 'runahead-limit'
    early = True

    def __init__(self, judge_missing: bool = True):
        self.bad: List[dict] = []
        self.manual: Set[Tuple[str, int]] = set()    # (task, ref point)
        self.stop: Optional[int] = None              # reference stop point
        self.pending: Optional[Tuple[str, dict]] = None
        self.judge_missing = judge_missing

    # ------------------------------------------------------------- set-up
    def attach(self, w: World) -> None:
        if getattr(self, 'w', None) is w:
            return                  # already listening since before boot
        super().attach(w)
        s = w.spec
        lo, hi = ref_bounds(s)
        self.lo, self.hi = lo, hi
        if self.stop is None:
            self.stop = hi if s.get('stop') is None else min(
                hi, self._ref_point(s['stop']))
        self.stop0 = self.stop
        self.ref = RefGraph(s['sections'], lo, hi, s.get('start'))

    def _ref_point(self, p) -> int:
        s = self.w.spec
        if s.get('cycling', 'integer') == 'integer':
            return int(p)
        return to_ref(s, p)

    def key(self):
        return (tuple(sorted(self.manual)), self.stop)

    # ------------------------------------------------------------- events
    def on_event(self, kind: str, data: dict) -> None:
        w = self.w
        if kind == 'reset':
            if data['before'][3] and not data['after'][3]:
                self._release(w, data)
        elif kind == 'command':
            ok = bool(data['result'][0]) if data.get('result') else False
            if not ok:
                return
            name, kw = data['name'], data['kwargs']
            if name == 'force_trigger_tasks':
                # exempt from the moment the command is accepted
                for t, p in _targets(kw):
                    self.manual.add((t, self._ref_point(p)))
                count('trigger-commands')
            elif name == 'stop' and kw.get('cycle_point') is not None:
                self.pending = (name, kw)    # effective once processed
        elif kind == 'cmd_processed':
            if self.pending is not None:
                _name, kw = self.pending
                self.pending = None
                self.stop = min(self.hi, self._ref_point(kw['cycle_point']))
                count('stop-point-commands')

    def _release(self, w: World, data: dict) -> None:
        it = _proxy_of(w, data['state'])
        if it is None:
            # not (yet) in the pool: a proxy being loaded on restart
            count('releases-outside-pool')
            return
        s = w.spec
        name = it.tdef.name
        p = to_ref(s, it.point)
        count('releases')
        if not getattr(w, 'iterations', 0):
            count('releases-at-start-up')
        if (name, p) in self.manual:
            count('releases-manual-exempt')
            return
        pool = sorted(
            (t.tdef.name, to_ref(s, t.point)) for t in _pool_tasks(w))
        lim, why = ref_runahead(s, pool, self.stop)
        if why['future']:
            count('releases-with-future-offset')
        if why['capped']:
            count('releases-with-stop-cap')
        if p == lim:
            count('releases-at-limit')
        if len({q for _t, q in pool if q > lim}):
            count('releases-with-others-held-back')
        if p > lim:
            ltxt = s.get('scheduling', {}).get('runahead limit', 'default')
            spool = w.schd.pool
            at_stop = (spool.runahead_limit_point is not None
                       and spool.runahead_limit_point == spool.stop_point)
            self.bad.append(self.viol(
                f'released-beyond-limit:{_where()}:{ltxt}:'
                + ('sched-limit-at-stop-point' if at_stop
                   else 'sched-limit-below-stop-point'),
                f'{it.point}/{name} released from the runahead pool but the '
                f'limit computed from the pool {pool} is {lim} (reference '
                f'units; earliest pool point {why["base"]}, limit {ltxt} -> '
                f'{why["raw"]}, future offset +{why["future"]}, stop point '
                f'{why["stop"]}); scheduler limit = '
                f'{spool.runahead_limit_point}, scheduler stop point = '
                f'{spool.stop_point}'))

    def after(self, w: World, ev: tuple) -> List[dict]:
        out, self.bad = self.bad, []
        if not w.running:
            self.pending = None     # a queued command dies with the process
        flush_counts()
        return out

    # ----------------------------------------------------------- terminal
    def terminal(self, w: World, kind: str) -> List[dict]:
        count('terminals')
        try:
            return self._terminal(w, kind)
        finally:
            flush_counts()

    def _terminal(self, w: World, kind: str) -> List[dict]:
        s = w.spec
        if any(j.live for j in w.env.jobs.values()) or w.env.pending():
            if kind.startswith('quiescent'):
                return []
        out = []
        ran = {(n, to_ref(s, p)) for (p, n, _k), j in w.env.jobs.items()
               if j.state == 'succeeded'}
        # tasks held back by the limit at the end, within the stop point
        starved = []
        pool = getattr(w.schd, 'pool', None)
        if pool is not None:
            for it in _pool_tasks(w):
                p = to_ref(s, it.point)
                if (it.state.is_runahead and it.state.status == 'waiting'
                        and p <= self.stop and (it.tdef.name, p) not in ran):
                    starved.append(f'{it.point}/{it.tdef.name}')
        if starved:
            out.append(self.viol(
                f'run-ended-with-runahead-limited-task:{kind}',
                f'all jobs succeeded and nothing is active, the run ended as '
                f'{kind!r}, but {sorted(starved)} (within the stop point '
                f'{self.stop}) are still held back by the runahead limit '
                f'{getattr(pool, "runahead_limit_point", None)}'))
        if kind != 'stopped:AUTO':
            out.append(self.viol(
                f'all-success-run-did-not-finish:{kind}',
                f'every job succeeded but the run ended as {kind!r} instead '
                'of shutting down by itself'))
        if self.judge_missing and not out:
            missing = sorted(self._expected() - ran)
            if missing:
                out.append(self.viol(
                    'instance-never-ran',
                    f'run ended ({kind}) but {missing} (task, point) of the '
                    'all-success closure of the graph never ran'))
        return out

    def _expected(self) -> Set[Tuple[str, int]]:
        """All-success spawn-on-demand closure within the stop point."""
        s = self.w.spec
        ref = self.ref
        if self.stop < self.hi:
            cref = RefGraph(s['sections'], self.lo, self.stop, s.get('start'))
            cref.points = {
                t: {p for p in pts if p <= self.stop}
                for t, pts in ref.points.items()}
        else:
            cref = ref
        _S, R, _M = cref.closure(lambda t, p: {'submitted', 'started',
                                               'succeeded'})
        return R
