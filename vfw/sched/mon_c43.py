"""C43 (stop point, stop task and stop modes behave as documented): monitor.

Reference model, written from the statement and `cylc stop --help`:

SP  the stop cycle point: the `--stopcp` start-up option, or the point of the
    last `stop <point>` command the scheduler has processed. It survives a
    stop + restart, except that a shutdown the scheduler decided by itself
    because nothing at or before SP was left ("reached") forgets it.
ST  the stop task: the instance of the last processed `stop <task>` command.
    The scheduler shuts down by itself after that instance *succeeds*.

Environment ground truth (the fake jobs) decides what has run/succeeded; the
graph closure comes from the catalogue term (RefGraph), never from cylc.
"""
from __future__ import annotations

from typing import List, Optional, Tuple

from .catalogue import RefGraph, optional_outputs
from .mon_c19 import Counters, bounded_ref, db_params
from .monitors import (
    GraphFaithful, env_outputs, latest_jobs, msg_to_output)
from .profile import Monitor
from .world import World

COUNTS = Counters('c43-counters')

ACTIVE = ('submitted', 'running')


def closure_status(w: World, ref: RefGraph) -> dict:
    """Spawn-on-demand closure of `ref` over the outcomes the environment's
    jobs really had."""
    latest = latest_jobs(w)

    def outputs_of(t, p):
        job = latest.get((str(p), t))
        if job is None:
            return None
        outs = env_outputs(job)
        outs |= {msg_to_output(w.spec, t, m) for m in job.emitted}
        return outs
    S, R, M = ref.closure(outputs_of)
    opt = optional_outputs(w.spec['sections'])
    incomplete = []
    unfinished = []
    for (t, p) in sorted(R):
        job = latest.get((str(p), t))
        if job is not None and job.live:
            unfinished.append((t, p))
            continue
        outs = outputs_of(t, p) or set()
        if not GraphFaithful._complete(w, t, outs, opt.get(t, set())):
            incomplete.append((t, p))
    return {
        'never_ran': sorted(M), 'incomplete': incomplete,
        'unfinished': unfinished, 'waiting': sorted(S - R - M),
        'done': not M and not incomplete and not unfinished
        and not (S - R - M),
    }


class StopSemantics(Monitor):
    name = 'stop-semantics'

    def __init__(self):
        self.bad: List[dict] = []
        self.SP: Optional[int] = None
        self.ST: Optional[Tuple[str, int]] = None      # (name, point)
        self.st_armed = False
        # instances beyond SP that were already being submitted when SP
        # took effect
        self.exempt: Tuple[Tuple[str, str], ...] = ()
        self.last: Optional[Tuple[str, str]] = None     # (reason, cause)
        self.pending: Optional[tuple] = None
        self.check_db = False
        # the scheduler has decided to shut down by itself (this iteration)
        self.auto_decided = False
        # a stop point arrived after that decision: not judged
        self.late = False

    def attach(self, w: World) -> None:
        super().attach(w)
        s = w.spec
        self.full = RefGraph(s['sections'], s['icp'], s['fcp'],
                             s.get('start'))
        self.SP = s.get('stop')

    def key(self):
        return (self.SP, self.ST, self.st_armed, self.exempt, self.last,
                self.late, self.auto_decided)

    # ------------------------------------------------------------ helpers
    def ref(self) -> RefGraph:
        if self.SP is None or self.SP >= self.full.fcp:
            return self.full
        return bounded_ref(self.w.spec, self.SP)

    def st_job(self):
        if self.ST is None:
            return None
        name, point = self.ST
        return latest_jobs(self.w).get((str(point), name))

    def st_succeeded(self) -> bool:
        job = self.st_job()
        return job is not None and job.state == 'succeeded'

    # ------------------------------------------------------------- events
    def on_event(self, kind: str, data: dict) -> None:
        w = self.w
        if kind == 'command':
            self.pending = None
            ok = bool(data['result'][0]) if data.get('result') else False
            if data['name'] != 'stop' or not ok:
                return
            kw = data['kwargs']
            if kw.get('cycle_point') is not None:
                self.pending = ('point', int(kw['cycle_point']))
            elif kw.get('task') is not None:
                p, n = kw['task'].split('/')
                self.pending = ('task', (n, int(p)))
            else:
                self.pending = ('mode', kw['mode'].name)
        elif kind == 'cmd_processed':
            self.processed(w)
        elif kind == 'cmd_start' and data['kind'] == 'jobs-submit':
            for (p, name, num) in data['jobs']:
                if self.SP is None:
                    continue
                COUNTS.bump('submissions judged against a stop point')
                if int(p) > self.SP and (p, name) not in self.exempt:
                    self.bad.append(self.viol(
                        'submitted-beyond-stop-point',
                        f'{p}/{name} (submit {num}) was submitted although '
                        f'the stop point is {self.SP} and it was not '
                        'triggered manually'))
        elif kind == 'set_stop':
            if data['mode'] is not None and data['mode'].name == 'AUTO':
                self.auto_decided = True
        elif kind == 'finished':
            self.finished(w, data['reason'])
        elif kind == 'started' and data.get('restart'):
            self.restarted(w)

    def processed(self, w: World) -> None:
        cmd, self.pending = self.pending, None
        if cmd is None:
            return
        what, arg = cmd
        if what == 'point':
            if self.auto_decided:
                # processed while the scheduler waits for its process pool,
                # after it had decided to shut down: whether this stop point
                # counts as reached is not specified
                self.late = True
                COUNTS.bump('stop point commands processed after the '
                            'shutdown decision (not judged)')
                return
            self.SP = arg
            COUNTS.bump('stop point commands processed')
            ex = set()
            for it in w.schd.pool.get_tasks():
                if int(str(it.point)) > arg:
                    COUNTS.bump('stop point set with a task beyond it in '
                                f'the pool ({it.state.status})')
                    if it.state.status == 'preparing':
                        ex.add((str(it.point), it.tdef.name))
            self.exempt = tuple(sorted(ex))
        elif what == 'task':
            self.ST = arg
            self.st_armed = not self.st_succeeded()
            COUNTS.bump('stop task commands processed'
                        + ('' if self.st_armed else ' (already succeeded)'))

    def finished(self, w: World, reason: str) -> None:
        self.pending = None
        self.check_db = True
        cause = ''
        if self.auto_decided and reason != 'stopped:AUTO':
            # a stop command was processed while the scheduler, having
            # decided to shut down by itself, waited for its process pool:
            # the shutdown that happened is the automatic one
            COUNTS.bump('stop requests processed after the automatic '
                        'shutdown decision')
            reason = 'stopped:AUTO'
        if reason == 'stopped:AUTO':
            COUNTS.bump('automatic shutdowns judged')
            st = closure_status(w, self.ref())
            st_ok = self.ST is not None and self.st_succeeded()
            if st['done'] and st_ok:
                cause = 'both'
            elif st['done']:
                cause = 'nothing-left'
                if self.SP is not None and self.SP < self.full.fcp:
                    COUNTS.bump('shutdowns at a stop point before the final '
                                'point')
            elif st_ok:
                cause = 'stop-task'
                COUNTS.bump('shutdowns after the stop task succeeded')
            else:
                cause = 'unjustified'
                job = self.st_job()
                if self.ST is not None and job is not None and (
                        not job.live):
                    self.bad.append(self.viol(
                        f'shutdown-after-stop-task-{job.state}',
                        f'the scheduler shut down by itself with stop task '
                        f'{self.ST[1]}/{self.ST[0]} {job.state} (it has not '
                        f'succeeded) and work left: {_left(st)}'))
                else:
                    self.bad.append(self.viol(
                        'premature-shutdown' + (
                            ':stop-point' if self.SP is not None else '')
                        + (':stop-task' if self.ST is not None else ''),
                        f'the scheduler shut down by itself (stop point '
                        f'{self.SP}, stop task {self.ST}) with work left at '
                        f'or before the stop point: {_left(st)}'))
        elif reason == 'stopped:REQUEST_CLEAN':
            COUNTS.bump('clean stops judged')
            for it in w.schd.pool.get_tasks():
                if it.state.status in ACTIVE:
                    self.bad.append(self.viol(
                        f'clean-stop-with-active-task:{it.state.status}',
                        f'the clean stop completed while {it.identity} is '
                        f'{it.state.status}'))
            for jk, job in sorted(w.env.jobs.items()):
                if self.bad:
                    break       # (same root cause: reported once)
                if job.state in ACTIVE:
                    self.bad.append(self.viol(
                        f'clean-stop-left-job-active:{job.state}',
                        f'the clean stop completed while job '
                        f'{jk[0]}/{jk[1]}/{jk[2]:02d} is really '
                        f'{job.state}'))
        elif reason.startswith('stopped:REQUEST_NOW'):
            live = [j for j in w.env.jobs.values() if j.state in ACTIVE]
            COUNTS.bump('stop --now judged')
            if live:
                COUNTS.bump('stop --now with jobs left running')
        if self.st_armed and self.st_succeeded():
            # this shutdown followed the success of the stop task
            self.st_armed = False
        self.last = (reason, cause)

    def restarted(self, w: World) -> None:
        self.pending = None
        self.check_db = False
        self.exempt = ()
        self.auto_decided = False
        late, self.late = self.late, False
        reason, cause = self.last or ('', '')
        pool = w.schd.pool
        fcp = self.full.fcp
        got = None if pool.stop_point is None else int(str(pool.stop_point))
        if got is not None and got >= fcp:
            got = None
        COUNTS.bump('restarts judged')
        if cause == 'nothing-left':
            if self.SP is not None:
                COUNTS.bump('restarts after the stop point was reached')
            self.SP = None
        elif cause == 'both':
            self.SP = got           # either is acceptable
        if late:
            self.SP = got
        if cause in ('stop-task', 'both'):
            self.ST = None
            self.st_armed = False
        want = self.SP if (self.SP is not None and self.SP < fcp) else None
        if want is not None:
            COUNTS.bump('restarts with a stop point to restore')
        if got != want:
            sig = ('stop-point-not-forgotten-once-reached' if want is None
                   else 'stop-point-lost-by-restart' if got is None
                   else 'stop-point-changed-by-restart')
            self.bad.append(self.viol(
                sig, f'after the restart (previous shutdown: {reason}, '
                f'{cause or "requested"}) the stop point is {got}; the '
                f'reference says {want}'))
        self.last = None

    # -------------------------------------------------------------- steps
    def after(self, w: World, ev: tuple) -> List[dict]:
        out, self.bad = self.bad, []
        if ev[0] == 'stop' and ev[1] != 'REQUEST_CLEAN' and w.running:
            out.append(self.viol(
                f'stop-now-did-not-stop:{ev[1]}',
                f'the scheduler is still running after stop {ev[1]} '
                '(without any job event)'))
        if not w.running:
            self.pending = None
            if self.check_db:
                self.check_db = False
                out.extend(self.db_check(w))
        COUNTS.flush()
        return out

    def db_check(self, w: World) -> List[dict]:
        reason, cause = self.last or ('', '')
        raw = db_params(w).get('stopcp')
        got = None if raw in (None, '') else int(raw)
        sp = self.SP
        COUNTS.bump('stopcp rows judged')
        if cause == 'both' or self.late:
            return []
        if cause == 'nothing-left':
            if got is not None:
                return [self.viol(
                    'stopcp-kept-after-stop-point-reached',
                    f'the scheduler shut down by itself with nothing left '
                    f'at or before the stop point {sp}, but '
                    f'workflow_params.stopcp is still {raw!r}')]
            return []
        if cause == 'unjustified':
            return []
        if got != sp:
            return [self.viol(
                'stopcp-not-persisted' if got is None
                else 'stopcp-differs',
                f'shutdown {reason} ({cause or "requested"}) with stop '
                f'point {sp}: workflow_params.stopcp is {raw!r}')]
        if sp is not None:
            COUNTS.bump('stopcp persisted at a requested stop')
        return []

    def terminal(self, w: World, kind: str) -> List[dict]:
        if not kind.startswith('quiescent') or not w.running:
            return []
        if any(j.live for j in w.env.jobs.values()) or w.env.pending():
            return []
        out = []
        st = closure_status(w, self.ref())
        mode = w.schd.stop_mode
        if mode is not None:
            out.append(self.viol(
                f'stop-never-completed:{mode.name}',
                f'stop mode {mode.name} is set, no job is active and no '
                'command is running, yet the scheduler does not shut down'))
        elif st['done']:
            beyond = [
                f'{it.identity} ({it.state.status})'
                for it in w.schd.pool.get_tasks()
                if self.SP is not None and int(str(it.point)) > self.SP
                and it.state.status in (
                    'failed', 'submit-failed', 'succeeded', 'expired')]
            q = ''
            if self.SP is not None:
                q = ':stop-point'
                if beyond and w.schd.is_stalled:
                    q += ':stalled-on-incomplete-task-beyond-it'
                    if not w.spec.get('judge_stall_beyond_stop_point'):
                        # this class is judged (and reported) in the one
                        # workflow that is dedicated to it, so that the
                        # others are explored to the end
                        COUNTS.bump('stalled on an incomplete task beyond '
                                    'the stop point (judged elsewhere)')
                        return out
            out.append(self.viol(
                'no-shutdown-with-nothing-left' + q,
                f'nothing at or before the stop point ({self.SP}) is left '
                f'to run, yet the scheduler idles ({kind}); finished tasks '
                f'beyond the stop point in the pool: {beyond}'))
        elif self.st_armed and self.st_succeeded():
            out.append(self.viol(
                'no-shutdown-after-stop-task',
                f'stop task {self.ST[1]}/{self.ST[0]} has succeeded, yet '
                f'the scheduler idles ({kind})'))
        elif st['never_ran'] and not w.schd.is_stalled:
            out.append(self.viol(
                'ready-instance-never-ran',
                f'{st["never_ran"]} at or before the stop point have '
                f'satisfied prerequisites and never ran ({kind})'))
        for it in w.schd.pool.get_tasks():
            if it.state.status in ACTIVE:
                job = w.env.jobs.get(
                    (str(it.point), it.tdef.name, it.submit_num))
                js = None if job is None else job.state
                out.append(self.viol(
                    f'job-state-not-recovered:{it.state.status}-vs-{js}',
                    f'{it.identity} is {it.state.status} for the scheduler '
                    f'but its job is really {js} and nothing is pending'))
        return out


def _left(st: dict) -> str:
    return (f"never ran {st['never_ran']}, unfinished {st['unfinished']}, "
            f"incomplete {st['incomplete']}, waiting {st['waiting']}")
