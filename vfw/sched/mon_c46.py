"""C46 monitors/profile: warm starts (`--start-cycle-point`) and start tasks
(`--start-task`).

Reference, from the statement and the `cylc play` documentation only:

* START = the start cycle point, or the cycle point of the earliest start
  task.
* No instance with point < START is ever submitted unless an operator
  `trigger` named exactly that instance.
* An offset dependency on an instance before START (or before the initial
  point) counts as satisfied from the moment the dependent enters the pool.
* Warm start: the instances that run are the spawn-on-demand closure of the
  graph term over [START, FCP] with those dependencies true.
* Start tasks: the closure is seeded with exactly the start tasks (their own
  prerequisites waived); an instance is "led to" when it is a graph child of
  an output really completed by an instance of the closure (and its trigger
  expression is true), or a later parentless instance of a task of the
  closure (parentless tasks spawn their own next instance).
"""
from __future__ import annotations

from typing import List, Optional, Set, Tuple

from ..core import HarnessError
from .catalogue import RefGraph, atoms, r_expr
from .monitors import (
    _proxy_of_state, env_done, env_outputs, latest_jobs, msg_to_output)
from .profile import Monitor, OpProfile
from .world import World

Inst = Tuple[str, int]


def start_of(spec: dict) -> int:
    opts = spec.get('options') or {}
    if opts.get('startcp') is not None:
        return int(opts['startcp'])
    if opts.get('starttask'):
        return min(int(t.split('/')[0]) for t in opts['starttask'])
    return int(spec['icp'])


def seeds_of(spec: dict) -> Optional[Set[Inst]]:
    opts = spec.get('options') or {}
    if opts.get('starttask'):
        return {(t.split('/')[1], int(t.split('/')[0]))
                for t in opts['starttask']}
    return None


class RefStart(RefGraph):
    """RefGraph + closure seeded with start tasks."""

    def __init__(self, spec: dict):
        super().__init__(spec['sections'], spec['icp'], spec['fcp'],
                         start_of(spec))
        self.seeds = seeds_of(spec)

    def has_pre_start_atom(self, task: str, p: int) -> bool:
        return any(
            self.pre_start(a, p) and p + a[2] >= self.icp
            for e in self.exprs(task, p) for a in atoms(e))

    def _chain(self, S: Set[Inst]) -> Set[Inst]:
        """Later parentless instances of the tasks already in S."""
        out = set()
        for t in {t for t, _ in S}:
            first = min(p for (tt, p) in S if tt == t)
            later = sorted(q for q in self.points.get(t, ())
                           if q > first and q >= self.start)
            flags = [self.parentless(t, q) for q in later]
            # reference sub-language: once parented, always parented
            if any(b and not a for a, b in zip(flags, flags[1:])):
                raise HarnessError(
                    f'catalogue outside the reference sub-language: {t} is '
                    f'parentless at some but not all later points {later}')
            for q, f in zip(later, flags):
                if not f:
                    break
                if all((t, r) in S for r in later if r < q):
                    out.add((t, q))
        return out - S

    def closure_from(self, outputs_of, seeds: Optional[Set[Inst]]):
        """-> (spawned S, run R, expected-but-never-ran M)."""
        if seeds is None:
            return self.closure(outputs_of)
        S: Set[Inst] = set(seeds)
        R: Set[Inst] = set()
        M: Set[Inst] = set()
        done: Set[Tuple[str, int, str]] = set()
        changed = True
        while changed:
            changed = False
            new = self._chain(S)
            if new:
                S |= new
                changed = True
            for inst in sorted(S - R - M):
                t, p = inst
                if inst not in seeds and not self.satisfied(t, p, done):
                    continue
                outs = outputs_of(t, p)
                changed = True
                if outs is None:
                    M.add(inst)
                    continue
                R.add(inst)
                for o in outs:
                    k = (t, p, o)
                    if k not in done:
                        done.add(k)
                        S.update(c for c in self.children(k)
                                 if c[1] >= self.start)
        return S, R, M


def _ids(kwargs) -> List[Tuple[str, str]]:
    out = []
    for tid in kwargs.get('tasks', []) or []:
        parts = tid.split('/')
        if len(parts) >= 2:
            out.append((parts[1].split(':')[0], parts[0]))
    return out


class StartRuns(Monitor):
    name = 'start-runs'

    def __init__(self):
        self.bad: List[dict] = []
        self.manual: Set[Tuple[str, str]] = set()     # (name, point)
        self.pending: List[tuple] = []
        self.ref: Optional[RefStart] = None

    def attach(self, w: World) -> None:
        super().attach(w)
        self.ref = RefStart(w.spec)
        self.waived = {(t, str(p)) for t, p in (self.ref.seeds or ())}

    def key(self):
        return tuple(sorted(self.manual))

    # ------------------------------------------------------------ events
    def on_event(self, kind: str, data: dict) -> None:
        w = self.w
        if kind == 'command':
            ok = bool(data['result'][0]) if data.get('result') else False
            if ok:
                self.pending.append((data['name'], data['kwargs']))
        elif kind == 'cmd_processed':
            for _ in range(data.get('n', 1)):
                if self.pending:
                    name, kw = self.pending.pop(0)
                    if name == 'force_trigger_tasks':
                        self.manual.update(_ids(kw))
        elif kind == 'add':
            self._check_add(data['itask'])
        elif kind == 'reset':
            if data['after'][0] == 'preparing' and \
                    data['before'][0] != 'preparing':
                it = _proxy_of_state(w, data['state'])
                if it is not None:
                    self._pre_start((it.tdef.name, str(it.point)), 'prepared')
        elif kind == 'cmd_start' and data['kind'] == 'jobs-submit':
            done = env_done(w)
            for (p, name, _num) in data['jobs']:
                self._pre_start((name, str(p)), 'submitted')
                self._faithful(name, int(p), done)

    def _pre_start(self, ident: Tuple[str, str], verb: str) -> None:
        if int(ident[1]) >= self.ref.start or ident in self.manual:
            return
        if any(b.get('ident') == list(ident) for b in self.bad):
            return
        self.bad.append(self.viol(
            f'pre-start-instance-{verb}',
            f'{ident[1]}/{ident[0]} {verb} although it is before the start '
            f'point {self.ref.start} and was not manually triggered '
            f'(manually triggered: {sorted(self.manual)})',
            ident=list(ident)))

    def _faithful(self, name: str, pt: int, done) -> None:
        """Dependencies at/after START still have to be really satisfied."""
        ref = self.ref
        ident = (name, str(pt))
        if ident in self.manual or ident in self.waived or pt < ref.start:
            return
        if not ref.valid(name, pt):
            return            # C07's business
        if not ref.satisfied(name, pt, done):
            self.bad.append(self.viol(
                'submitted-before-post-start-output',
                f'{pt}/{name} submitted but its trigger expression '
                f'{[r_expr(e) for e in ref.exprs(name, pt)]} (dependencies '
                f'before {ref.start} counted as satisfied) is false over '
                f'outputs really completed: {sorted(done)}'))

    def _check_add(self, it) -> None:
        ref = self.ref
        p = int(str(it.point))
        if p < ref.start:
            return
        for pre in it.state.prerequisites:
            for k, v in pre.items():
                if int(str(k.point)) < ref.start and not v:
                    self.bad.append(self.viol(
                        'pre-start-dependency-unsatisfied-at-spawn',
                        f'{it.identity} entered the pool with its dependency '
                        f'on {k.point}/{k.task}:{k.output} unsatisfied '
                        f'although {k.point} is before the start point '
                        f'{ref.start}'))

    def after(self, w: World, ev: tuple) -> List[dict]:
        out, self.bad = self.bad, []
        if not w.running:
            self.pending = []
        return out

    # ---------------------------------------------------------- terminal
    def terminal(self, w: World, kind: str) -> List[dict]:
        kind = kind.split('+')[0]
        if any(j.live for j in w.env.jobs.values()) or w.env.pending():
            if kind.startswith('quiescent'):
                return []
        ref = self.ref
        latest = latest_jobs(w)
        ran = {(n, int(p)) for (p, n) in latest}

        def outputs_of(t, p):
            job = latest.get((str(p), t))
            if job is None:
                return None
            outs = env_outputs(job)
            outs |= {msg_to_output(w.spec, t, m) for m in job.emitted}
            return outs
        S, R, M = ref.closure_from(outputs_of, ref.seeds)
        manual = {(n, int(p)) for n, p in self.manual}
        out = []
        # an instance spawned with a dependency that is never met (e.g. on
        # an instance no start task leads to) holds the runahead window:
        # later instances are legitimately never released (a stall the
        # operator caused); only instances not behind such a blocker must
        # have run
        stuck = [p for (_t, p) in S - R - M]
        if stuck:
            M = {(t, q) for (t, q) in M if q <= min(stuck)}
        if M:
            out.append(self.viol(
                'start-closure-instance-never-ran',
                f'run ended ({kind}) but {sorted(M)} follow from the start '
                f'(start point {ref.start}, start tasks '
                f'{sorted(ref.seeds) if ref.seeds else None}) with their '
                'dependencies satisfied and never ran'))
        extra = ran - R - manual
        if extra:
            out.append(self.viol(
                'ran-outside-start-closure',
                f'{sorted(extra)} ran but do not follow from the start '
                f'(start point {ref.start}, start tasks '
                f'{sorted(ref.seeds) if ref.seeds else None}; reference run '
                f'set {sorted(R)})'))
        return out


class C46Profile(OpProfile):
    """Terminal kinds carry measured vacuity flags (functions of the
    state: the jobs of the environment and the spec)."""

    def terminal_kind(self, w: World) -> str:
        base = super().terminal_kind(w)
        ref = RefStart(self.spec)
        flags = []
        ran = {(n, int(p)) for (p, n, _k) in w.env.jobs}
        if ref.seeds is not None:
            flags.append('start-tasks')
        elif ref.start > ref.icp:
            flags.append('warm')
        if any(ref.has_pre_start_atom(t, p) for t, p in ran
               if p >= ref.start):
            flags.append('pre-start-dep')
        if any(p < ref.start for _t, p in ran):
            flags.append('manual-pre-start')
        return base + ''.join('+' + f for f in flags)
