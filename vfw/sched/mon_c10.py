"""C10 / C09: message-delivery deviations (DESIGN.md 3.3) and the monitors
that judge them.

* `MsgProfile` adds *deviation* events to the default alphabet, each costing
  one unit of a per-execution budget (the number used is part of the state
  key):

    ('hold', job, step)     the job takes `step`, its message stays in flight
    ('lose', job, step)     the job takes `step`, its message is lost (only a
                            poll, or a later message, reveals the step)
    ('dup', job, msg)       an already delivered message is delivered again
                            (for a job that has been superseded by a retry
                            this is the *stale submit number* case)
    ('early', job)          the job starts before its `jobs-submit` returns
    ('snap', jobs)          a running `jobs-poll` reads the job status files
                            *now*; its result reaches the scheduler later
    ('pollcmd',)            `poll_tasks */*` is queued (environment event)
    ('burst', job, step)    the job takes `step` and its message is queued,
                            but the scheduler does not run: the next event
                            lands in the *same* main-loop iteration (two
                            messages batched by process_queued_task_messages)

  and the free events

    ('deliver', job, i)     the i-th in-flight message of the job arrives
                            (any order within the job)
    ('jump',)               clock jump to the next retry / poll-timer deadline

* `wrap_pm` is an observation funnel around the real
  `TaskEventsManager.process_message` (top-level calls only): `pm_begin` /
  `pm_end` events carry the proxy's (status, outputs) before and after.

* `StaleGuard` (C10, here) and `LifecycleStrict` (C09, mon_c09.py) are the
  oracles; they are written from the property statements over the
  environment's ground truth (`World.env.jobs`) - cylc objects are only
  *observed*.
"""
from __future__ import annotations

import inspect
import json
import os
import sqlite3
from typing import Dict, List, Optional, Set, Tuple

from .. import core
from . import canon
from . import world as _world
from .canon import world_canon
from .monitors import retries_of
from .profile import Monitor, Profile
from .world import World

STD = ('submitted', 'started', 'succeeded', 'failed', 'submit-failed',
       'expired')
RECEIVED = '(received)'
POLLED = '(polled)'
INTERNAL = '(internal)'

# ---------------------------------------------------------------------------
# counters that survive the search-worker processes (vacuity guards)

_CNT: Dict[str, int] = {}
_DIRTY = [False]


def bump(key: str, n: int = 1) -> None:
    _CNT[key] = _CNT.get(key, 0) + n
    _DIRTY[0] = True


def flush_counters() -> None:
    flush_examples()
    if not _DIRTY[0]:
        return
    _DIRTY[0] = False
    path = core.scratch_root() / f'msgcnt-{os.getpid()}.json'
    tmp = path.with_suffix('.tmp')
    tmp.write_text(json.dumps(_CNT))
    os.replace(tmp, path)


def reset_counters() -> None:
    _CNT.clear()
    _DIRTY[0] = False
    _EX.clear()
    _EX_DIRTY[0] = False
    for p in list(core.scratch_root().glob('msgcnt-*.json')) + list(
            core.scratch_root().glob('msgex-*.json')):
        p.unlink()


def collect_counters() -> Dict[str, int]:
    """Sum of the counters of every worker (observations made while event
    prefixes were re-executed are included)."""
    flush_counters()
    out: Dict[str, int] = {}
    for p in sorted(core.scratch_root().glob('msgcnt-*.json')):
        for k, v in json.loads(p.read_text()).items():
            out[k] = out.get(k, 0) + v
    return dict(sorted(out.items()))


# first example (event path) of every *tolerated* violation signature: the
# exploration goes on past a known defect, the property module turns the
# examples into ordinary violations (matched against known_findings.json by
# the CLI; `replay` runs without any tolerance)
_EX: Dict[str, dict] = {}
_EX_DIRTY = [False]


def note_example(sig: str, what: str, w: World) -> None:
    bump(f'tolerated:{sig}')
    path = [list(e) for e in getattr(w, 'path', [])]
    cur = _EX.get(sig)
    if cur is None or len(path) < len(cur['events']):
        _EX[sig] = {'signature': sig, 'what': what, 'events': path,
                    'flow': w.flow_text,
                    'spec_name': w.spec.get('name', '')}
        _EX_DIRTY[0] = True


def flush_examples() -> None:
    if not _EX_DIRTY[0]:
        return
    _EX_DIRTY[0] = False
    path = core.scratch_root() / f'msgex-{os.getpid()}.json'
    tmp = path.with_suffix('.tmp')
    tmp.write_text(json.dumps(_EX))
    os.replace(tmp, path)


def collect_examples() -> List[dict]:
    """Shortest recorded example per tolerated signature."""
    flush_examples()
    best: Dict[str, dict] = {}
    for p in sorted(core.scratch_root().glob('msgex-*.json')):
        for sig, ex in json.loads(p.read_text()).items():
            cur = best.get(sig)
            if cur is None or (len(ex['events']), ex['spec_name']) < (
                    len(cur['events']), cur['spec_name']):
                best[sig] = ex
    return [best[k] for k in sorted(best)]


# ---------------------------------------------------------------------------
# funnel around process_message

_PM_WRAPPED = False
_DEPTH = [0]


def completed(itask) -> Tuple[str, ...]:
    return tuple(sorted(
        m for m, d in itask.state.outputs._completed.items() if d))


def _snap(itask) -> tuple:
    return (itask.state.status, completed(itask), itask.submit_num)


def wrap_pm() -> None:
    """Idempotent, transparent wrapper: calls the original and reports the
    effect of every *top-level* process_message call."""
    global _PM_WRAPPED
    if _PM_WRAPPED:
        return
    _PM_WRAPPED = True
    from cylc.flow.task_events_mgr import TaskEventsManager as TEM
    orig = TEM.process_message
    sig = inspect.signature(orig)

    def process_message(self, *a, **kw):
        w = _world._CUR[0]
        top = _DEPTH[0] == 0 and w is not None
        if top:
            ba = sig.bind(self, *a, **kw)
            ba.apply_defaults()
            itask = ba.arguments['itask']
            before = _snap(itask)
            num = ba.arguments['submit_num']
            rec = dict(
                itask=itask, message=ba.arguments['message'],
                flag=ba.arguments['flag'],
                submit_num=itask.submit_num if num is None else num,
                forced=ba.arguments['forced'], before=before)
            w.emit('pm_begin', **rec)
        _DEPTH[0] += 1
        try:
            ret = orig(self, *a, **kw)
        finally:
            _DEPTH[0] -= 1
        if top:
            w.emit('pm_end', ret=ret, after=_snap(itask), **rec)
        return ret
    TEM.process_message = process_message


# ---------------------------------------------------------------------------
# profile

def _sev(msg: str) -> str:
    return 'CRITICAL' if msg.startswith('failed') else 'INFO'


CLUSTER = 60.0       # seconds: deadlines closer than this fire together


def long_delays(flow_text: str) -> str:
    """Retry delays of minutes instead of seconds, chosen so that retry
    deadlines and (multiples of) the PT15M poll interval never come within
    CLUSTER seconds of one another: which of two timers fires first is then
    a function of the canonical state (deadline order), not of how many
    seconds happened to pass between the events that set them."""
    return flow_text.replace('*PT5S', '*PT7M30S').replace('*PT7S', '*PT4M')


DEVIATIONS = ('hold', 'lose', 'dup', 'early', 'snap', 'pollcmd', 'burst')


class MsgProfile(Profile):
    """Default alphabet + message-delivery deviations with a budget."""

    def __init__(self, spec, *, budget: int = 1,
                 deviations: Tuple[str, ...] = DEVIATIONS, **kw):
        kw.setdefault('jump', ('try', 'poll'))
        super().__init__(spec, **kw)
        self.flow_text = long_delays(self.flow_text)
        self.budget = budget
        self.deviations = tuple(deviations)

    # ------------------------------------------------------------ world
    def make_world(self) -> World:
        wrap_pm()
        w = super().make_world()
        w.dev_used = 0
        w.path = []
        return w

    def extra_key(self, w: World):
        sent = tuple(sorted(
            (jk, tuple(j.sent)) for jk, j in w.env.jobs.items()))
        snaps = tuple(
            (p.kind, tuple(p.jobs), getattr(p, 'snap_key', None))
            for p in w.env.pending())
        return (self.budget, w.dev_used, sent, snaps)

    # --------------------------------------------------------- alphabet
    @staticmethod
    def _polls_outstanding(w: World) -> int:
        n = sum(1 for p in w.env.pending() if p.kind == 'jobs-poll')
        for item in w.schd.proc_pool.queuings:
            if getattr(item[0], 'cmd_key', None) == 'jobs-poll':
                n += 1
        return n

    def _jump_target(self, w: World) -> Optional[float]:
        """Where a `jump` goes: to the *last* deadline of the earliest
        cluster of pending retry/poll deadlines (deadlines less than
        CLUSTER seconds apart fire together: which of two timers set a few
        main-loop iterations apart fires first is not a property of the
        canonical state). None = no jump offered.

        * a poll timer may only fire while no poll is outstanding (poll
          results come back in seconds, poll intervals are minutes): this
          keeps the number of concurrent polls, hence the space, finite;
        * no jump while a jobs-submit is running, and never across the
          process-pool timeout of a running command (C42's subject)."""
        if any(p.kind == 'jobs-submit' for p in w.env.pending()):
            return None
        kinds = self.jump
        if self._polls_outstanding(w):
            kinds = tuple(k for k in kinds if k != 'poll')
        if not kinds:
            return None
        world_canon(w, with_db=False)
        cand = sorted(
            (when, n) for when, n in canon._DEADLINES
            if n.split(':')[0] in kinds)
        if not cand:
            return None
        target = cand[0][0]
        fired = [cand[0][1]]
        for when, n in cand[1:]:
            if when - target < CLUSTER:
                target = when
                fired.append(n)
            else:
                break
        limits = [when for when, n in canon._DEADLINES
                  if n.split(':')[0] == 'proc']
        if limits and target > min(limits) - CLUSTER:
            return None
        self._fired = fired     # names of the deadlines a jump would pass
        return target

    def cmd_variants(self, w, proc):
        v = super().cmd_variants(w, proc)
        if proc.kind == 'jobs-submit' and any(
                w.env.jobs[jk].state != 'launching' for jk in proc.jobs):
            # a job of this command has already started: the submission
            # cannot be reported as failed any more
            return ['ok']
        return v

    def job_steps(self, w: World, job) -> List[str]:
        steps = super().job_steps(w, job)
        if steps and any(
                p.kind == 'jobs-submit' and job.key in
                [tuple(j) for j in p.jobs] for p in w.env.pending()):
            # started before its jobs-submit returned ('early'): the job
            # does not *finish* before the command returns (the scheduler
            # would busy-wait for the command at shutdown, which the
            # environment model cannot interleave with)
            steps = [s for s in steps if s not in ('succeeded', 'failed')]
        return steps

    def enabled(self, w: World) -> List[tuple]:
        if not w.running:
            return []
        evs: List[tuple] = [('tick',)]
        for proc in w.env.pending():
            for v in self.cmd_variants(w, proc):
                evs.append(('cmd', proc.kind, tuple(proc.jobs), v))
        steps = []
        for jk in sorted(w.env.jobs):
            job = w.env.jobs[jk]
            for step in self.job_steps(w, job):
                steps.append((jk, step))
                evs.append(('job', jk, step))
        for jk in sorted(w.env.jobs):
            job = w.env.jobs[jk]
            for i in range(len(job.inflight)):
                evs.append(('deliver', jk, i))
        if self._jump_target(w) is not None:
            evs.append(('jump',))
        if w.dev_used < self.budget:
            dv = self.deviations
            for jk, step in steps:
                if 'hold' in dv:
                    evs.append(('hold', jk, step))
                if 'lose' in dv and not step.startswith('out:'):
                    evs.append(('lose', jk, step))
                if 'burst' in dv:
                    evs.append(('burst', jk, step))
            if 'early' in dv:
                for proc in w.env.pending():
                    if proc.kind != 'jobs-submit':
                        continue
                    for jk in proc.jobs:
                        if w.env.jobs[jk].state == 'launching':
                            evs.append(('early', jk))
            if 'dup' in dv:
                for jk in sorted(w.env.jobs):
                    seen = []
                    for m in w.env.jobs[jk].sent:
                        if m not in seen:
                            seen.append(m)
                            evs.append(('dup', jk, m))
            if 'snap' in dv:
                for proc in w.env.pending():
                    if proc.kind == 'jobs-poll' and not hasattr(
                            proc, 'snap_key'):
                        evs.append(('snap', tuple(proc.jobs)))
            if 'pollcmd' in dv and self._pollable(w):
                evs.append(('pollcmd',))
        seen = set()
        out = []
        for e in evs:
            if e not in seen:
                seen.add(e)
                out.append(e)
        return out

    @staticmethod
    def _pollable(w: World) -> bool:
        """`poll_tasks */*` is only offered when every non-waiting task in
        the pool has a job that the job runner knows about (what a poll of a
        job that was never launched prints is outside the environment
        model), and no poll is outstanding."""
        if MsgProfile._polls_outstanding(w):
            return False
        some = False
        for it in w.schd.pool.get_tasks():
            if it.state.status == 'waiting':
                continue
            job = w.env.jobs.get(
                (str(it.point), it.tdef.name, it.submit_num))
            if job is None or job.state == 'launching':
                return False
            some = True
        return some

    # ------------------------------------------------------------ apply
    def _find(self, w: World, kind: str, jobs) -> int:
        jobs = tuple(tuple(j) for j in jobs)
        for i, proc in enumerate(w.env.pending()):
            if proc.kind == kind and tuple(proc.jobs) == jobs:
                return i
        raise RuntimeError(f'no pending {kind} for {jobs!r}')

    def _finish(self, w: World, ckind: str, jobs, variant: str) -> None:
        idx = self._find(w, ckind, jobs)
        proc = w.env.pending()[idx]
        if ckind == 'jobs-poll' and hasattr(proc, 'snap_out'):
            proc.finish(0, proc.snap_out)
            w.emit('cmd_done', kind=ckind, jobs=list(proc.jobs),
                   variant='snap', ctx=proc.ctx)
            return
        if ckind == 'jobs-submit' and variant == 'ok' and any(
                w.env.jobs[jk].state != 'launching' for jk in proc.jobs):
            # some job of this command has already started ('early'): the
            # command reports success without touching the job's state
            t = _world.now_str()
            lines = []
            for jk in proc.jobs:
                job = w.env.jobs[jk]
                if job.state == 'launching':
                    job.state = 'submitted'
                path = f'{jk[0]}/{jk[1]}/{jk[2]:02d}'
                lines.append(
                    f'[TASK JOB SUMMARY]{t}|{path}|0|'
                    f'{1000 + len(w.env.jobs)}')
            proc.finish(0, '\n'.join(lines) + '\n')
            w.emit('cmd_done', kind=ckind, jobs=list(proc.jobs),
                   variant=variant, ctx=proc.ctx)
            return
        w.finish_cmd(idx, variant)

    def apply(self, w: World, ev: tuple) -> None:
        w.path.append(ev)
        self._apply(w, ev)
        self._clamp_poll_timers(w)

    @staticmethod
    def _clamp_poll_timers(w: World) -> None:
        """State abstraction: a poll timer's attempt counter grows without
        bound, but `TaskActionTimer.next(no_exhaust=True)` behaves the same
        for every num >= len(delays) (it repeats the last delay) - clamp it
        so that repeated polls converge to a finite state space."""
        if not w.running:
            return
        for it in w.schd.pool.get_tasks():
            t = it.poll_timer
            if t is not None and t.num is not None and t.delays and \
                    t.num > len(t.delays):
                t.num = len(t.delays)

    def _apply(self, w: World, ev: tuple) -> None:
        kind = ev[0]
        if kind == 'cmd':
            _, ckind, jobs, variant = ev
            self._finish(w, ckind, jobs, variant)
        elif kind == 'jump':
            from .harness import CLOCK
            when = self._jump_target(w)
            w.jump_fired = []
            if when is not None and when > CLOCK.now:
                # just past the deadline (timers test `now > timeout`;
                # virtual time does not move on ticks)
                CLOCK.now = when + 0.001
                w.jump_fired = list(self._fired)
        elif kind == 'deliver':
            _, jk, i = ev
            jk = tuple(jk)
            job = w.env.jobs[jk]
            msg = job.inflight.pop(i)
            job.sent.append(msg)
            bump('deliver-late')
            w.deliver(jk, msg, _sev(msg))
        elif kind == 'hold':
            _, jk, step = ev
            w.dev_used += 1
            bump('dev:hold')
            w.job_step(tuple(jk), step, deliver=False)
        elif kind == 'lose':
            _, jk, step = ev
            w.dev_used += 1
            bump('dev:lose')
            jk = tuple(jk)
            w.job_step(jk, step, deliver=False)
            w.env.jobs[jk].inflight.pop()
        elif kind == 'dup':
            _, jk, msg = ev
            w.dev_used += 1
            bump('dev:dup')
            w.deliver(tuple(jk), msg, _sev(msg))
        elif kind == 'burst':
            _, jk, step = ev
            w.dev_used += 1
            bump('dev:burst')
            w.job_step(tuple(jk), step)
            return          # no scheduler iteration
        elif kind == 'early':
            _, jk = ev
            jk = tuple(jk)
            w.dev_used += 1
            bump('dev:early')
            w.env.jobs[jk].state = 'submitted'   # launched by the runner
            w.job_step(jk, 'started')
        elif kind == 'snap':
            _, jobs = ev
            idx = self._find(w, 'jobs-poll', jobs)
            proc = w.env.pending()[idx]
            w.dev_used += 1
            bump('dev:snap')
            proc.snap_out = w._poll_output(proc.jobs)
            proc.snap_key = tuple(
                (w.env.jobs[jk].state, tuple(w.env.jobs[jk].emitted))
                if jk in w.env.jobs else None for jk in proc.jobs)
        elif kind == 'pollcmd':
            w.dev_used += 1
            bump('dev:pollcmd')
            w.command('poll_tasks', tasks=['*/*'])
        else:
            return super().apply(w, ev)
        w.resume()


# ---------------------------------------------------------------------------
# ground truth helpers

def instance_jobs(w: World, point: str, name: str) -> list:
    return [w.env.jobs[k] for k in sorted(w.env.jobs)
            if k[0] == point and k[1] == name]


def implied_status(message: str) -> Optional[str]:
    """The status a job message reports (statement: lifecycle)."""
    if message == 'started':
        return 'running'
    if message == 'succeeded':
        return 'succeeded'
    if message == 'failed' or message.startswith('failed/'):
        return 'failed'
    return None


# position on the lifecycle of the statement:
#   waiting -> preparing -> submitted -> running -> succeeded|failed
RANK = {'waiting': 0, 'preparing': 1, 'submitted': 2, 'running': 3,
        'succeeded': 4, 'failed': 4}


def poll_requested(w: World, jk) -> bool:
    """Is a jobs-poll of job `jk` queued, running, or started in this
    iteration?"""
    path = f'{jk[0]}/{jk[1]}/{jk[2]:02d}'
    for item in w.schd.proc_pool.queuings:
        ctx = item[0]
        if getattr(ctx, 'cmd_key', None) == 'jobs-poll' and path in ctx.cmd:
            return True
    for p in w.env.pending():
        if p.kind == 'jobs-poll' and tuple(jk) in [tuple(j) for j in p.jobs]:
            return True
    for kind, data in w.events:
        if kind == 'cmd_start' and data['kind'] == 'jobs-poll' and \
                tuple(jk) in [tuple(j) for j in data['jobs']]:
            return True
    return False


def db_task(w: World, point: str, name: str):
    """(status, completed output messages) of the instance in the private
    DB (latest row), or None."""
    w.close_db()
    try:
        conn = sqlite3.connect(
            f'file:{w.schd.workflow_db_mgr.pri_path}?mode=ro', uri=True)
    except sqlite3.Error:
        return None
    try:
        rows = conn.execute(
            'SELECT status, submit_num, flow_nums FROM task_states '
            'WHERE cycle=? AND name=? ORDER BY submit_num',
            (point, name)).fetchall()
        if not rows:
            return None
        status = rows[-1][0]
        outs = conn.execute(
            'SELECT outputs FROM task_outputs WHERE cycle=? AND name=? '
            'AND flow_nums=?', (point, name, rows[-1][2])).fetchall()
        msgs: Set[str] = set()
        for (o,) in outs:
            try:
                d = json.loads(o)
            except (TypeError, ValueError):
                continue
            msgs.update(d.values() if isinstance(d, dict) else d)
        return status, msgs
    except sqlite3.Error:
        return None
    finally:
        conn.close()


def expected_final(w: World, point: str, name: str):
    """What the statement requires once the latest job of the instance is
    over: (status, outputs that must be complete, outputs that must not be,
    custom messages that must be complete, custom messages that may be) -
    or None while the outcome is still open (job alive, retry due)."""
    jobs = instance_jobs(w, point, name)
    if not jobs:
        return None
    last = jobs[-1]
    if last.live:
        return None
    n_exec, n_sub = retries_of(w.spec, name)
    may = set()
    for j in jobs:
        may.update(j.emitted)
    must = set(last.emitted) - set(last.inflight)
    if last.state == 'succeeded':
        return ('succeeded', {'submitted', 'started', 'succeeded'},
                {'failed', 'submit-failed', 'expired'}, must, may)
    if last.state == 'failed':
        nfail = sum(1 for j in jobs if j.state == 'failed')
        if nfail <= n_exec:
            return None          # an automatic retry is due
        return ('failed', {'submitted', 'started', 'failed'},
                {'succeeded', 'submit-failed', 'expired'}, must, may)
    if last.state == 'submit-failed':
        run = 0
        for j in reversed(jobs):
            if j.state != 'submit-failed':
                break
            run += 1
        if run <= n_sub:
            return None
        return ('submit-failed', {'submit-failed'},
                {'succeeded', 'failed', 'expired'}, must, may)
    return None


def env_settled(w: World) -> bool:
    """Nothing is in transit between the jobs and the scheduler."""
    if w.env.pending():
        return False
    for j in w.env.jobs.values():
        if j.live or j.inflight:
            return False
    if w.running:
        schd = w.schd
        if schd.message_queue.qsize() or schd.proc_pool.is_not_done():
            return False
    return True


# ---------------------------------------------------------------------------
class StaleGuard(Monitor):
    """C10.

    (i)   a *received* message whose submit number is older than the task's
          current one changes neither status nor outputs;
    (ii)  a received message of the current job that reports a status
          *behind* the task's status changes nothing and a poll of the job
          is requested in that iteration;
    (iii) once nothing is in transit (jobs over, no command running, no
          message queued or in flight) the task's status and outputs are
          those of the latest job's real outcome - or the task is still
          active *and* has a poll timer that will reveal it (and when the
          clock passes a poll deadline of an active task, a jobs-poll of
          its job is requested).
    """
    name = 'stale-guard'

    def __init__(self):
        self.bad: List[dict] = []
        self.want_poll: List[tuple] = []
        self.n_recv = 0

    # ------------------------------------------------------------ events
    def on_event(self, kind: str, data: dict) -> None:
        if kind != 'pm_end':
            return
        w = self.w
        it = data['itask']
        flag = data['flag']
        msg = data['message']
        b_status, b_outs, b_num = data['before']
        a_status, a_outs, a_num = data['after']
        point, name = str(it.point), it.tdef.name
        bump(f'pm:{flag}')
        if flag != RECEIVED or data['forced'] or it.transient:
            return
        self.n_recv += 1
        if self.n_recv == 2:
            bump('batched-received')
        num = data['submit_num']
        jobs = instance_jobs(w, point, name)
        current = max([b_num] + [j.key[2] for j in jobs])
        ident = f'{point}/{name}'
        if num < current:
            bump('stale-received')
            if a_status != b_status:
                self.bad.append(self.viol(
                    f'stale-message-changed-status:{msg}:'
                    f'{b_status}->{a_status}',
                    f'{ident}: message {msg!r} of job {num:02d} (current '
                    f'job {current:02d}) changed the status {b_status} -> '
                    f'{a_status}'))
            elif a_outs != b_outs:
                self.bad.append(self.viol(
                    f'stale-message-changed-outputs:{msg}',
                    f'{ident}: message {msg!r} of job {num:02d} (current '
                    f'job {current:02d}) completed outputs '
                    f'{sorted(set(a_outs) - set(b_outs))}'))
            return
        if num > current:
            return
        s = implied_status(msg)
        if s is None or b_status not in RANK:
            return
        if RANK[b_status] > RANK[s]:
            bump('backward-received')
            bump(f'backward-received:{msg}@{b_status}')
            if a_status != b_status:
                self.bad.append(self.viol(
                    f'backward-message-changed-status:{msg}:'
                    f'{b_status}->{a_status}',
                    f'{ident}: received {msg!r} while {b_status}: the '
                    f'status went backwards to {a_status} instead of a '
                    'poll'))
            else:
                self.want_poll.append(((point, name, num), msg, b_status))

    # ------------------------------------------------------- transition
    def after(self, w: World, ev: tuple) -> List[dict]:
        out, self.bad = self.bad, []
        want, self.want_poll = self.want_poll, []
        self.n_recv = 0
        for jk, msg, status in want:
            if not w.running:
                continue
            if poll_requested(w, jk):
                bump('backward-poll-seen')
            else:
                out.append(self.viol(
                    f'backward-message-no-poll:{msg}@{status}',
                    f'{jk[0]}/{jk[1]}: received {msg!r} of the current job '
                    f'{jk[2]:02d} while {status}: no state change, but no '
                    'jobs-poll was requested either'))
        if ev[0] == 'jump' and w.running:
            out.extend(self.timer_polls(w))
        if not out and env_settled(w):
            out.extend(self.final(w, 'settled'))
        flush_counters()
        return out

    def terminal(self, w: World, kind: str) -> List[dict]:
        bump('terminal')
        out = self.final(w, kind)
        flush_counters()
        return out

    # ---------------------------------------------------- clause (iii)
    def timer_polls(self, w: World) -> List[dict]:
        """(iii) relies on poll timers: when the clock has just been moved
        past the poll deadline of an active task, a jobs-poll of its job
        must have been requested in that iteration."""
        out = []
        fired = {n.split(':', 1)[1] for n in getattr(w, 'jump_fired', [])
                 if n.startswith('poll:')}
        for it in w.schd.pool.get_tasks():
            if it.identity not in fired:
                continue
            if it.state.status not in ('submitted', 'running'):
                continue
            if any(k == 'reset' and d['state'] is it.state
                   for k, d in w.events):
                continue     # status changed in this iteration: new timer
            jk = (str(it.point), it.tdef.name, it.submit_num)
            if poll_requested(w, jk):
                bump('timer-poll-seen')
            else:
                out.append(self.viol(
                    f'poll-timer-fired-without-poll:{it.state.status}',
                    f'{it.identity}: the poll timer of the {it.state.status}'
                    f' task came due but no jobs-poll of job {jk[2]:02d} was '
                    'requested'))
        return out

    def final(self, w: World, where: str) -> List[dict]:
        out = []
        insts = sorted({(k[0], k[1]) for k in w.env.jobs})
        pool = {}
        if w.running:
            for it in w.schd.pool.get_tasks():
                pool[(str(it.point), it.tdef.name)] = it
        for point, name in insts:
            exp = expected_final(w, point, name)
            if exp is None:
                continue
            status, must, never, cmust, cmay = exp
            ident = f'{point}/{name}'
            it = pool.get((point, name))
            if it is not None:
                got_status = it.state.status
                got = set(completed(it))
                src = 'pool'
                if got_status in ('submitted', 'running', 'preparing'):
                    if where == 'settled':
                        if got_status != 'preparing' and (
                                it.poll_timer is None):
                            out.append(self.viol(
                                f'active-without-poll-timer:{got_status}'
                                f'-vs-{status}',
                                f'{ident}: the latest job is {status} and '
                                'nothing is in transit, but the task is '
                                f'{got_status} and has no poll timer'))
                        continue
                if got_status == 'waiting':
                    if where == 'settled':
                        continue   # judged at the terminal state
            else:
                row = db_task(w, point, name)
                if row is None:
                    continue
                got_status, got = row
                src = 'db'
            bump('final-judged')
            last = instance_jobs(w, point, name)[-1]
            if got_status != status:
                out.append(self.viol(
                    f'final-status-differs:{got_status}-vs-job-{status}',
                    f'{ident} ({src}, {where}): status {got_status} but '
                    f'the latest job {last.key[2]:02d} really {status}'))
                continue
            std_got = got & set(STD)
            miss = must - got
            extra = never & got
            if miss or extra:
                out.append(self.viol(
                    f'final-outputs-differ:{status}:missing='
                    f'{",".join(sorted(miss))}:extra='
                    f'{",".join(sorted(extra))}',
                    f'{ident} ({src}, {where}): job {status}; completed '
                    f'standard outputs {sorted(std_got)}'))
                continue
            cgot = got - set(STD)
            if not cmust <= cgot:
                out.append(self.viol(
                    f'final-custom-output-missing:{status}',
                    f'{ident} ({src}, {where}): the latest job emitted '
                    f'{sorted(cmust)} (delivered or polled) but only '
                    f'{sorted(cgot)} are complete'))
            elif not cgot <= cmay:
                out.append(self.viol(
                    f'final-custom-output-invented:{status}',
                    f'{ident} ({src}, {where}): outputs {sorted(cgot - cmay)}'
                    ' are complete but no job emitted them'))
        return out
