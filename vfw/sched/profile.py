"""Profiles: workflow spec + event alphabet + monitors for one exploration."""
from __future__ import annotations

from typing import Any, Dict, List, Optional, Tuple

from .world import World
from .canon import digest, world_canon


def render_flow(spec: dict) -> str:
    """Render a workflow spec (catalogue term) to flow.cylc text."""
    L = []
    a = L.append
    a('[scheduler]')
    a('    allow implicit tasks = True')
    if spec.get('cycling', 'integer') != 'integer':
        a('    UTC mode = True')
    for k, v in spec.get('scheduler', {}).items():
        a(f'    {k} = {v}')
    ev = spec.get('events', {})
    a('    [[events]]')
    a('        stall timeout = PT100H')
    a('        inactivity timeout = PT1000H')
    a('        abort on stall timeout = False')
    if 'restart timeout' not in ev:
        # a restarted, already complete workflow shuts down at once instead
        # of waiting (2 min by default) for the operator to intervene
        a('        restart timeout = PT0S')
    for k, v in ev.items():
        a(f'        {k} = {v}')
    a('[scheduling]')
    if spec.get('cycling', 'integer') == 'integer':
        a('    cycling mode = integer')
    a(f"    initial cycle point = {spec.get('icp', 1)}")
    if spec.get('fcp') is not None:
        a(f"    final cycle point = {spec['fcp']}")
    for k, v in spec.get('scheduling', {}).items():
        a(f'    {k} = {v}')
    if spec.get('queues'):
        a('    [[queues]]')
        for qn, q in spec['queues'].items():
            a(f'        [[[{qn}]]]')
            a(f"            limit = {q['limit']}")
            if q.get('members'):
                a(f"            members = {', '.join(q['members'])}")
    if spec.get('special'):
        a('    [[special tasks]]')
        for k, v in spec['special'].items():
            a(f'        {k} = {v}')
    if spec.get('xtriggers'):
        a('    [[xtriggers]]')
        for k, v in spec['xtriggers'].items():
            a(f'        {k} = {v}')
    a('    [[graph]]')
    for sec, text in spec['graph'].items():
        a(f'        {sec} = """')
        for line in text.strip().splitlines():
            a(f'            {line.strip()}')
        a('        """')
    a('[runtime]')
    a('    [[root]]')
    a('        script = true')
    for k, v in spec.get('root', {}).items():
        a(f'        {k} = {v}')
    for fam, members in spec.get('families', {}).items():
        a(f'    [[{fam}]]')
        for m in members:
            a(f'    [[{m}]]')
            a(f'        inherit = {fam}')
    for name, t in spec.get('tasks', {}).items():
        a(f'    [[{name}]]')
        if t.get('inherit'):
            a(f"        inherit = {t['inherit']}")
        for k, v in t.get('settings', {}).items():
            a(f'        {k} = {v}')
        r = t.get('retries', {})
        if r.get('exec'):
            a(f"        execution retry delays = {r['exec']}*PT5S")
        if r.get('sub'):
            a(f"        submission retry delays = {r['sub']}*PT7S")
        if t.get('completion'):
            a(f"        completion = {t['completion']}")
        if t.get('outputs'):
            a('        [[[outputs]]]')
            for o, msg in t['outputs'].items():
                a(f'            {o} = {msg}')
        for sec, kv in t.get('sections', {}).items():
            a(f'        [[[{sec}]]]')
            for k, v in kv.items():
                a(f'            {k} = {v}')
    return '\n'.join(L) + '\n'


class Monitor:
    """Base class: observe a World, return violation dicts."""
    name = 'monitor'

    def attach(self, w: World) -> None:
        self.w = w
        w.listeners.append(self.on_event)

    def on_event(self, kind: str, data: dict) -> None:
        pass

    def after(self, w: World, ev: tuple) -> List[dict]:
        return []

    def terminal(self, w: World, kind: str) -> List[dict]:
        return []

    def key(self):
        return None

    def viol(self, signature: str, what: str, **extra) -> dict:
        return {'signature': signature, 'what': what, 'monitor': self.name,
                **extra}


class Profile:
    """Default event alphabet (DESIGN.md 3.3/3.4)."""

    def __init__(self, spec: dict, *, options: Optional[dict] = None,
                 monitors: Optional[List[Monitor]] = None,
                 outcomes: Optional[Dict[str, List[str]]] = None,
                 emit: str = 'all', submit_fail: Tuple[str, ...] = (),
                 macro: bool = False, max_restarts: int = 0,
                 wid: str = 'w', jump: Tuple[str, ...] = ('try',)):
        self.spec = spec
        self.flow_text = spec.get('flow_text') or render_flow(spec)
        self.options = options or spec.get('options') or {}
        # monitors: list of zero-arg factories (fresh instances per boot)
        self.monitor_factories = list(monitors or [])
        self.monitors: List[Monitor] = []
        self._world: Optional[World] = None
        # task name -> allowed final outcomes of a job
        self.outcomes = outcomes or {}
        self.emit = emit     # custom outputs: 'all' (in order) | 'any'
        self.submit_fail = set(submit_fail)
        self.macro = macro
        self.max_restarts = max_restarts
        self.wid = wid
        # deadline kinds a `jump` event may advance the clock to
        self.jump = tuple(jump)

    # ------------------------------------------------------------ world
    def fresh_monitors(self) -> None:
        self.monitors = [f() for f in self.monitor_factories]

    def make_world(self) -> World:
        if self._world is not None:
            self._world.dispose()
        w = self._world = World(self.wid, self.flow_text, self.options,
                  self.spec.get('global_text', ''))
        w.spec = self.spec
        w.boot()
        return w

    def extra_key(self, w: World):
        return None

    def terminal_kind(self, w: World) -> str:
        if not w.running:
            return w.finished or 'down'
        schd = w.schd
        if schd.is_stalled:
            return 'stalled'
        if schd.is_paused:
            return 'paused'
        return 'idle'

    # ----------------------------------------------------------- alphabet
    def custom_outputs(self, w: World, name: str) -> List[str]:
        """Custom output *messages* of a task, in declaration order."""
        t = self.spec.get('tasks', {}).get(name, {})
        return list(t.get('outputs', {}).values())

    def job_steps(self, w: World, job) -> List[str]:
        point, name, _ = job.key
        if job.state == 'submitted':
            return ['started']
        if job.state != 'running':
            return []
        outs = self.custom_outputs(w, name)
        steps = []
        remaining = [m for m in outs if m not in job.emitted]
        allowed = self.outcomes.get(name, ['succeeded'])
        if self.emit == 'all':
            if remaining:
                return [f'out:{remaining[0]}']
        else:
            steps.extend(f'out:{m}' for m in remaining)
        steps.extend(allowed)
        return steps

    def cmd_variants(self, w: World, proc) -> List[str]:
        if proc.kind == 'jobs-submit':
            v = ['ok']
            if any(jk[1] in self.submit_fail for jk in proc.jobs):
                v.append('fail')
            return v
        if hasattr(proc.ctx, 'func_name'):
            return self.xtrigger_variants(w, proc)
        return ['ok']

    def xtrigger_variants(self, w, proc) -> List[str]:
        return ['true']

    def operator_events(self, w: World) -> List[tuple]:
        return []

    def enabled(self, w: World) -> List[tuple]:
        if not w.running:
            if w.n_restarts < self.max_restarts:
                return [('restart',)]
            return []
        evs: List[tuple] = [('tick',)]
        for proc in w.env.pending():
            for v in self.cmd_variants(w, proc):
                evs.append(('cmd', proc.kind, tuple(proc.jobs), v))
        for jk in sorted(w.env.jobs):
            job = w.env.jobs[jk]
            for step in self.job_steps(w, job):
                evs.append(('job', jk, step))
        evs.extend(self.operator_events(w))
        if self.jump:
            from . import canon
            world_canon(w, with_db=False)
            if canon.next_deadline(self.jump) is not None:
                evs.append(('jump',))
        # de-duplicate identical commands (same kind+jobs) keeping order
        seen = set()
        out = []
        for e in evs:
            if e not in seen:
                seen.add(e)
                out.append(e)
        return out

    # -------------------------------------------------------------- apply
    def apply(self, w: World, ev: tuple) -> None:
        kind = ev[0]
        if kind == 'restart':
            w.restart()
            return
        if kind == 'tick':
            pass
        elif kind == 'jump':
            from . import canon
            from .harness import CLOCK
            world_canon(w, with_db=False)
            when = canon.next_deadline(self.jump)
            if when is not None and when > CLOCK.now:
                # just past the deadline (some timers test `now > timeout`)
                CLOCK.now = when + 0.001
        elif kind == 'cmd':
            _, ckind, jobs, variant = ev
            jobs = tuple(tuple(j) for j in jobs)
            for i, proc in enumerate(w.env.pending()):
                if proc.kind == ckind and tuple(proc.jobs) == jobs:
                    w.finish_cmd(i, variant)
                    break
            else:
                raise RuntimeError(f'no pending command for {ev!r}')
        elif kind == 'job':
            _, jk, step = ev
            w.job_step(tuple(jk), step)
        elif kind == 'op':
            self.apply_op(w, ev)
        else:
            raise ValueError(f'unknown event {ev!r}')
        w.resume()
        if self.macro:
            self.settle(w)

    def apply_op(self, w: World, ev: tuple) -> None:
        _, name, kwargs = ev
        w.command(name, **dict(kwargs))

    def settle(self, w: World, limit: int = 30) -> None:
        """Tick until the scheduler reaches an internal fixpoint."""
        prev = None
        for _ in range(limit):
            if not w.running:
                return
            cur = digest(world_canon(w, with_db=False))
            if cur == prev and not w.schd.command_queue.qsize():
                return
            prev = cur
            w.resume()


class OpProfile(Profile):
    """Profile with an operator alphabet: at most `op_budget` commands per
    execution, offered at every main-loop boundary (DESIGN.md 3.3)."""

    def __init__(self, spec, *, ops=None, op_budget: int = 1,
                 op_when=None, stops=(), down_steps: bool = False,
                 stop_after_op: bool = False, **kw):
        super().__init__(spec, **kw)
        # stop modes offered (StopMode names); each stop needs a restart
        self.stops = tuple(stops)
        self.down_steps = down_steps
        self.stop_after_op = stop_after_op
        # ops(world) -> list of (name, kwargs-dict)
        self.ops = ops or (lambda w: [])
        self.op_budget = op_budget
        self.op_when = op_when      # optional predicate world -> bool

    def make_world(self):
        w = super().make_world()
        w.op_count = 0
        w.op_log = []
        w.n_stops = 0
        return w

    def extra_key(self, w):
        return (w.op_count, tuple(w.op_log), w.n_stops)

    def operator_events(self, w):
        out = []
        if w.op_count < self.op_budget and (
                self.op_when is None or self.op_when(w)):
            for name, kwargs in self.ops(w):
                out.append(('op', name, _freeze(kwargs)))
        if (w.n_stops < self.max_restarts and w.schd.stop_mode is None
                and (w.op_count > 0 or not self.stop_after_op)):
            for mode in self.stops:
                out.append(('stop', mode))
        return out

    def enabled(self, w):
        if not w.running and self.down_steps and (
                w.n_restarts < self.max_restarts):
            # the scheduler is down: jobs keep running, messages are lost
            evs = [('restart',)]
            for jk in sorted(w.env.jobs):
                job = w.env.jobs[jk]
                for step in self.job_steps(w, job):
                    evs.append(('job', jk, step))
            return evs
        return super().enabled(w)

    def apply(self, w, ev):
        if ev[0] == 'stop':
            from cylc.flow.workflow_status import StopMode
            w.n_stops += 1
            w.command('stop', mode=StopMode[ev[1]])
            w.resume()
            # the scheduler needs a few iterations to wind down
            for _ in range(50):
                if not w.running:
                    break
                if ev[1] == 'REQUEST_CLEAN' and (
                        w.env.pending() or any(
                            j.live for j in w.env.jobs.values())):
                    break       # waits for active jobs: environment's turn
                w.resume()
            return
        if ev[0] == 'job' and not w.running:
            w.job_step(tuple(ev[1]), ev[2])    # message lost (not running)
            return
        return super().apply(w, ev)

    def apply_op(self, w, ev):
        _, name, kwargs = ev
        kw = _thaw(kwargs)
        w.op_count += 1
        w.op_log.append((name, _freeze(kw)))
        res = w.command(name, **kw)
        w.last_op_result = res


def _freeze(x):
    if isinstance(x, dict):
        return tuple(sorted((k, _freeze(v)) for k, v in x.items()))
    if isinstance(x, (list, tuple)):
        return ('__list__',) + tuple(_freeze(i) for i in x)
    return x


def _thaw(x):
    if isinstance(x, (tuple, list)):
        x = tuple(x)
        if x and x[0] == '__list__':
            return [_thaw(i) for i in x[1:]]
        if all(isinstance(i, (tuple, list)) and len(i) == 2
               and isinstance(i[0], str) for i in x):
            return {k: _thaw(v) for k, v in x}
        return [_thaw(i) for i in x]
    return x
