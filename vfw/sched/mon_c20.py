"""C20 crash-restart: sqlite commit shim, crash events, monitors."""
from __future__ import annotations

import sqlite3 as _real_sqlite3
from pathlib import Path
from typing import Dict, List, Optional, Set, Tuple

from .profile import Monitor, OpProfile
from .world import World


class CrashNow(BaseException):
    """Raised right after a commit: the scheduler process 'dies' here."""


class _Shim:
    """State of the sqlite commit seam."""
    target: Optional[int] = None       # crash after this many commits
    count = 0                          # private-DB commits this step
    images: Optional[Dict[str, Optional[bytes]]] = None
    files: List[Path] = []
    triggered = False
    commits_seen = 0                   # statistic


SHIM = _Shim()


class _ConnProxy:
    def __init__(self, conn, path):
        object.__setattr__(self, '_c', conn)
        object.__setattr__(self, '_p', str(path))

    def __getattr__(self, name):
        return getattr(self._c, name)

    def __setattr__(self, name, value):
        setattr(self._c, name, value)

    def __enter__(self):
        self._c.__enter__()
        return self

    def __exit__(self, exc_type, *a):
        # leaving a `with connection:` block commits too
        ret = self._c.__exit__(exc_type, *a)
        if exc_type is None:
            self._after_commit()
        return ret

    def commit(self):
        self._c.commit()
        self._after_commit()

    def _after_commit(self):
        SHIM.commits_seen += 1
        SHIM.count += 1
        if SHIM.target is not None and SHIM.count == SHIM.target:
            # capture the on-disk image at this very instant, *before* any
            # finally-block of the dying process can touch the files
            SHIM.images = {
                str(f): (f.read_bytes() if f.exists() else None)
                for f in SHIM.files}
            SHIM.triggered = True
            SHIM.target = None
            raise CrashNow()


class _SqliteShimModule:
    def __getattr__(self, name):
        return getattr(_real_sqlite3, name)

    def connect(self, path, *a, **kw):
        return _ConnProxy(_real_sqlite3.connect(path, *a, **kw), path)


_INSTALLED = False


def install_shim() -> None:
    global _INSTALLED
    if _INSTALLED:
        return
    import cylc.flow.rundb as R
    R.sqlite3 = _SqliteShimModule()
    _INSTALLED = True


def db_files(w: World) -> List[Path]:
    mgr = w.schd.workflow_db_mgr
    out = []
    for p in (mgr.pri_path, mgr.pub_path):
        out += [Path(p), Path(p + '-journal'), Path(p + '-wal')]
    return out


class CrashProfile(OpProfile):
    """Adds ('crash', k, fate, inner_event): apply inner_event, run the
    scheduler iteration but kill the process right after its k-th database
    commit (k=0: kill at the boundary, before the iteration), then restart
    from the database image of that instant. Jobs keep running; a
    jobs-submit command in flight either completes (the orphaned submit
    process launches the job) or is lost (`fate`)."""

    def __init__(self, spec, *, max_crashes=1, kmax=4, **kw):
        super().__init__(spec, **kw)
        self.max_crashes = max_crashes
        self.kmax = kmax

    def make_world(self):
        install_shim()
        w = super().make_world()
        w.n_crashes = 0
        w.crash_log = []
        return w

    def extra_key(self, w):
        return (super().extra_key(w), w.n_crashes)

    def enabled(self, w):
        evs = super().enabled(w)
        if not w.running or w.n_crashes >= self.max_crashes:
            return evs
        base = [e for e in evs if e[0] in ('tick', 'cmd', 'job')]
        out = list(evs)
        for e in base:
            for k in range(0, self.kmax + 1):
                if k == 0 and e[0] != 'tick':
                    continue     # k=0 = kill at the boundary: once is enough
                fates = ['-']
                if any(p.kind == 'jobs-submit' for p in w.env.pending()):
                    fates = ['launched', 'lost']
                for fate in fates:
                    out.append(('crash', k, fate, e))
        return out

    def apply(self, w, ev):
        if ev[0] != 'crash':
            SHIM.target = None
            SHIM.count = 0
            return super().apply(w, ev)
        _, k, fate, inner = ev
        inner = tuple(inner)
        w.close_db()
        SHIM.files = db_files(w)
        SHIM.count = 0
        SHIM.triggered = False
        SHIM.images = None
        if k == 0:
            SHIM.images = {
                str(f): (f.read_bytes() if f.exists() else None)
                for f in SHIM.files}
            SHIM.triggered = True
        else:
            SHIM.target = k
            try:
                super().apply(w, inner)
            finally:
                SHIM.target = None
            if not SHIM.triggered:
                return            # fewer than k commits: no crash happened
        # ---- the process is dead ------------------------------------
        w.n_crashes += 1
        w.emit('crashed', k=k, inner=inner, fate=fate)
        if w.running:
            # k == 0: kill at the boundary. The dead process must never run
            # again: its coroutine (and the loop it sleeps on) is abandoned.
            t = w.task
            t.remove_done_callback(w._done)
            t._log_destroy_pending = False
            w.task = None
        w.close_db()
        try:
            w.schd.proc_pool.pipepoller.close()
        except Exception:
            pass
        w.loop = None      # restart on a fresh loop
        for path, img in SHIM.images.items():
            f = Path(path)
            if img is None:
                if f.exists():
                    f.unlink()
            else:
                f.write_bytes(img)
        # the contact file of the dead process is removed by the operator
        contact = Path(w.run_dir) / '.service' / 'contact'
        if contact.exists():
            contact.unlink()
        # fate of commands that were running in the dead process' pool
        for proc in list(w.env.pending()):
            if proc.kind == 'jobs-submit':
                for jk in proc.jobs:
                    job = w.env.jobs.get(jk)
                    if job is None:
                        continue
                    if fate == 'launched':
                        job.state = 'submitted'
                    else:
                        job.state = 'never-launched'
            proc.returncode = -9
        w.env.procs = []
        w.error = None
        w.finished = 'crashed'
        w.restart()


class CrashOracle(Monitor):
    """No job is launched twice under the same submit number (C20)."""
    name = 'crash-oracle'
    crashes = 0

    def __init__(self):
        self.bad: List[dict] = []
        self.seen_double: Set[tuple] = set()
        self.last_crash: Optional[dict] = None

    def on_event(self, kind, data):
        if kind == 'crashed':
            CrashOracle.crashes += 1
            self.last_crash = {
                'k': data['k'], 'fate': data['fate'],
                'inner': data['inner'][0]}

    def after(self, w: World, ev: tuple) -> List[dict]:
        out = []
        for jk in w.env.double_launch:
            if jk in self.seen_double:
                continue
            self.seen_double.add(jk)
            lc = self.last_crash or {}
            # classify: was the first launch done by a submit command that
            # was still in flight when the process died?
            window = (lc.get('fate') == 'launched')
            sig = ('double-launch:jobs-submit-in-flight-at-crash'
                   if window else 'double-launch:other')
            out.append(self.viol(
                sig,
                f'job {jk[0]}/{jk[1]}/{jk[2]:02d} was launched twice under '
                f'the same submit number (crash after commit '
                f'{lc.get("k")} of the iteration handling a '
                f'{lc.get("inner")!r} event; submit command in flight: '
                f'{lc.get("fate")})'))
        if w.error is not None and not isinstance(w.error, CrashNow):
            out.append(self.viol(
                f'scheduler-died:{type(w.error).__name__}',
                f'scheduler died with {type(w.error).__name__}: {w.error}'))
        return out

    def key(self):
        return (tuple(sorted(self.seen_double)),
                tuple(sorted((self.last_crash or {}).items())))
