"""C28: group trigger runs each member once, honouring in-group order.

Reference (from the statement and `cylc trigger --help`), over the catalogue
*term* and the command log; one ledger entry per trigger command:

* members M = the instances named; group-start S = members none of whose
  graph-trigger atoms refers to another member; live L = group-start members
  that were preparing/submitted/running when the command was executed;
* at the end of the iteration that executed the command every member of
  S - L has begun job preparation (status preparing or later) - whether or
  not it is held or the workflow paused - unless it was *not* queued before
  and its (limited) queue was full;
* a member of M - S enters preparation only when each of its trigger
  expressions is true with off-group atoms taken as satisfied and in-group
  atoms satisfied by outputs *really produced* (environment ground truth) by
  the current run of the upstream member: a job submitted after the
  trigger, or the live job of a member of L;
* a member of L is never submitted again and its live job is not killed;
  no member is submitted twice in one flow after the trigger;
* when the run ends every member not in L has been submitted once after the
  trigger, if its in-group atoms are satisfiable as above at the end
  (and the workflow is not paused, the member not held, for M - S).
"""
from __future__ import annotations

import json
import os
from typing import Dict, List, Optional, Set, Tuple

from .catalogue import RefGraph, atoms
from .monitors import env_outputs, msg_to_output
from .profile import Monitor, OpProfile
from .world import World, _CUR

Inst = Tuple[str, int]
ACTIVE = ('preparing', 'submitted', 'running')
STARTED = ('preparing', 'submitted', 'running', 'succeeded', 'failed',
           'submit-failed')


class Counters:
    def __init__(self, tag: str):
        self.tag = tag
        self.c: Dict[str, int] = {}
        self.pid = None
        self.dirty = False

    def bump(self, name: str, n: int = 1) -> None:
        if self.pid != os.getpid():
            self.pid = os.getpid()
            self.c = {}
        self.c[name] = self.c.get(name, 0) + n
        self.dirty = True

    def flush(self) -> None:
        if not self.dirty or self.pid != os.getpid():
            return
        from ..core import scratch_root
        path = scratch_root() / f'{self.tag}-{os.getpid()}.json'
        tmp = path.with_suffix('.tmp')
        tmp.write_text(json.dumps(self.c))
        os.replace(tmp, path)
        self.dirty = False

    def collect(self, scratch) -> Dict[str, int]:
        total: Dict[str, int] = {}
        for p in sorted(scratch.glob(f'{self.tag}-*.json')):
            try:
                for k, v in json.loads(p.read_text()).items():
                    total[k] = total.get(k, 0) + int(v)
            finally:
                p.unlink()
        return total


COUNTS = Counters('c28-counters')

_WRAPPED = False


def wrap_c28() -> None:
    """Bracket the execution of queued operator commands."""
    global _WRAPPED
    if _WRAPPED:
        return
    _WRAPPED = True
    from cylc.flow.scheduler import Scheduler

    o_pcq = Scheduler.process_command_queue

    async def process_command_queue(self):
        w = _CUR[0]
        if w is not None and self.command_queue.qsize():
            w.emit('cmdq_begin')
        return await o_pcq(self)
    Scheduler.process_command_queue = process_command_queue


def parse_inst(tid: str) -> Inst:
    p, n = tid.split('/')[:2]
    return (n.split(':')[0], int(p))


def queue_of(spec: dict, task: str) -> Optional[Tuple[str, int, List[str]]]:
    """(queue name, limit, members) of the limited queue of `task`."""
    qs = spec.get('queues') or {}
    all_tasks = sorted({a[1] for _, items in spec['sections']
                        for it in items if it[0] == 'edge'
                        for a in atoms(it[1])}
                       | {it[2] if it[0] == 'edge' else it[1]
                          for _, items in spec['sections'] for it in items})
    named = set()
    for qn, q in qs.items():
        if qn != 'default':
            named.update(q.get('members', []))
    for qn, q in qs.items():
        if qn == 'default':
            members = [t for t in all_tasks if t not in named]
        else:
            members = list(q.get('members', []))
        if task in members and int(q.get('limit', 0)) > 0:
            return (qn, int(q['limit']), members)
    return None


class GroupTrigger(Monitor):
    name = 'group-trigger'

    def __init__(self):
        self.bad: List[dict] = []
        self.ref: Optional[RefGraph] = None
        self.trigs: List[dict] = []      # the ledger
        self.cmd: Optional[dict] = None
        self.fresh: Optional[dict] = None   # executed in this iteration

    def attach(self, w: World) -> None:
        super().attach(w)
        s = w.spec
        self.ref = RefGraph(s['sections'], s['icp'], s['fcp'])

    # ------------------------------------------------------------- key
    def key(self):
        out = []
        for t in self.trigs:
            out.append((
                t['members'], t['starts'], t['live'], t['ignored'],
                t['flow'], t['F'], tuple(sorted(t['base'].items())),
                tuple(sorted((m, tuple(v)) for m, v in t['subs'].items())),
                tuple(sorted(t['qfull'].items())),
                tuple(sorted(t['had_job'].items())),
            ))
        return tuple(out)

    # ------------------------------------------------------- reference
    def in_group_atoms(self, m: Inst, members) -> List[tuple]:
        ref = self.ref
        t, p = m
        out = []
        for e in ref.exprs(t, p):
            for a in atoms(e):
                if ref.pre_start(a, p):
                    continue
                if (a[1], p + a[2]) in members and (a[1], p + a[2]) != m:
                    out.append(a)
        return out

    def latest(self, m: Inst) -> Optional[dict]:
        for t in reversed(self.trigs):
            if m in t['members']:
                return t
        return None

    def done_set(self, trig: dict) -> Set[Tuple[str, int, str]]:
        """Outputs really produced by the current run of each member."""
        w = self.w
        done = set()
        for (p, n, num), job in w.env.jobs.items():
            m = (n, int(p))
            if m not in trig['members']:
                continue
            base = trig['base'].get(m, 0)
            after = {x[0] for x in trig['subs'].get(m, ())}
            # current run: a job submitted after the trigger, or the job
            # that was live and left to finish (live group-start member, or
            # a member of another flow that the triggered flow merges into)
            cur = num > base or num in after or (num == base and (
                m in trig['live'] or m in trig['ignored']))
            if not cur:
                continue
            for o in env_outputs(job):
                done.add((n, int(p), o))
            for msg in job.emitted:
                done.add((n, int(p), msg_to_output(w.spec, n, msg)))
        return done

    def eval_in_group(self, e, p: int, m: Inst, trig: dict, done) -> bool:
        ref = self.ref
        if e[0] == 'atom':
            if ref.pre_start(e, p):
                return True
            t, q, o = ref.atom_key(e, p)
            if (t, q) not in trig['members'] or (t, q) == m:
                return True          # off-group: satisfied automatically
            if o == 'finished':
                return (t, q, 'succeeded') in done or (t, q, 'failed') in done
            return (t, q, o) in done
        op, l, r = e
        if op == '&':
            return (self.eval_in_group(l, p, m, trig, done)
                    and self.eval_in_group(r, p, m, trig, done))
        return (self.eval_in_group(l, p, m, trig, done)
                or self.eval_in_group(r, p, m, trig, done))

    def in_group_ok(self, m: Inst, trig: dict) -> bool:
        done = self.done_set(trig)
        t, p = m
        return all(self.eval_in_group(e, p, m, trig, done)
                   for e in self.ref.exprs(t, p))

    # ---------------------------------------------------------- events
    def _pool(self, w: World) -> Dict[Inst, object]:
        return {(it.tdef.name, int(str(it.point))): it
                for bucket in w.schd.pool.active_tasks.values()
                for it in bucket.values()}

    def on_event(self, kind: str, data: dict) -> None:
        w = self.w
        if kind == 'command':
            self.cmd = None
            if data['name'] != 'force_trigger_tasks':
                return
            ok = bool(data['result'][0]) if data.get('result') else False
            if not ok:
                COUNTS.bump('trigger_rejected')
                return
            kw = data['kwargs']
            self.cmd = {'tasks': [parse_inst(t) for t in kw['tasks']],
                        'flow': ','.join(kw.get('flow') or ['all'])}
        elif kind == 'cmdq_begin':
            if self.cmd is not None:
                self._begin(w)
        elif kind == 'cmd_processed':
            trig = self.fresh
            if trig is not None and trig['F'] is None:
                # the flows this trigger acted in: numbers it allocated and
                # the flows of its group-start members right after the
                # command (other members left in the pool belong to another
                # flow)
                pool = self._pool(w)
                F = set(w.schd.pool.flow_mgr.flows) - trig.pop(
                    'flows_before')
                for m in trig['starts']:
                    if m in pool:
                        F.update(pool[m].flow_nums)
                trig['F'] = tuple(sorted(F))
        elif kind == 'cmd_start':
            if data['kind'] == 'jobs-submit':
                for jk in data['jobs']:
                    self._submitted(w, jk)
            elif data['kind'] == 'jobs-kill':
                for (p, n, num) in data['jobs']:
                    m = (n, int(p))
                    trig = self.latest(m)
                    if trig and m in trig['live'] and \
                            num == trig['base'].get(m):
                        self.bad.append(self.viol(
                            'live-group-start-killed',
                            f'{p}/{n} was a group-start member with a live '
                            f'job (#{num}) when {trig["members"]} was '
                            'triggered; it must be left to finish but its '
                            'job is being killed'))
        elif kind == 'reset':
            if data['after'][0] == 'preparing' and \
                    data['before'][0] != 'preparing':
                self._preparing(w, data)

    def _begin(self, w: World) -> None:
        """The scheduler is about to execute the trigger command."""
        cmd, self.cmd = self.cmd, None
        ref = self.ref
        if w.schd.stop_mode is not None:
            # executed while the scheduler is already shutting down
            COUNTS.bump('trigger_while_stopping_not_judged')
            return
        members = tuple(sorted(
            m for m in cmd['tasks'] if ref.valid(*m)
            and ref.icp <= m[1] <= ref.fcp))
        if not members:
            return
        pool = self._pool(w)
        mset = set(members)
        starts = tuple(m for m in members
                       if not self.in_group_atoms(m, mset))
        live = tuple(m for m in starts
                     if m in pool and pool[m].state.status in ACTIVE)
        # not judged for liveness (see the assumptions of C28):
        # --flow=none: group-start members active in a flow are skipped by
        #   cylc with a warning, and a no-flow task does not flow on, so
        #   members with in-group prerequisites cannot follow;
        # --flow=new/N: a member that is active in another flow is not
        #   re-run, the triggered flow merges into it.
        ignored = ()
        if cmd['flow'] == 'none':
            ignored = tuple(
                m for m in members
                if m not in starts or (m in pool and pool[m].flow_nums))
        elif cmd['flow'] != 'all':
            merge = any(m in pool for m in members)
            ignored = tuple(
                m for m in members if m not in starts and (
                    m in pool or merge))
        base = {}
        had_job = {}
        for m in members:
            nums = [num for (p, n, num) in w.env.jobs
                    if (n, int(p)) == m]
            b = max(nums) if nums else 0
            if m in pool:
                b = max(b, int(pool[m].submit_num))
            base[m] = b
            had_job[m] = any((n, int(p)) == m and num == b
                             for (p, n, num) in w.env.jobs)
        # queue occupancy before the command
        qfull = {}
        for m in starts:
            q = queue_of(w.spec, m[0])
            if q is None:
                continue
            qn, limit, qmembers = q
            n_active = sum(
                1 for i, it in pool.items()
                if i[0] in qmembers and (
                    it.state.status in ACTIVE or it.waiting_on_job_prep))
            others = sum(
                1 for o in starts
                if o != m and o not in live and o[0] in qmembers)
            was_queued = m in pool and pool[m].state.is_queued
            qfull[m] = (not was_queued) and (n_active + others >= limit)
        # inner members removed while their jobs-submit command is running
        inflight = tuple(
            m for m in members
            if m not in starts and m in pool and had_job[m]
            and pool[m].state.status == 'preparing')
        trig = {
            'inflight': inflight,
            'members': members, 'starts': starts, 'live': live,
            'ignored': ignored, 'flow': cmd['flow'], 'base': base,
            'subs': {}, 'qfull': qfull, 'F': None, 'had_job': had_job,
            'flows_before': set(w.schd.pool.flow_mgr.flows),
            'held': tuple(m for m in members
                          if m in pool and pool[m].state.is_held),
            'paused': bool(w.schd.is_paused),
        }
        self.trigs.append(trig)
        self.fresh = trig
        COUNTS.bump(f'trigger:size{len(members)}:flow={cmd["flow"]}')
        for m in members:
            where = ('live' if m in live else
                     pool[m].state.status if m in pool else 'inactive')
            role = 'start' if m in starts else 'inner'
            COUNTS.bump(f'member:{role}:{where}')
        if trig['held']:
            COUNTS.bump('trigger_with_held_member')
        if trig['paused']:
            COUNTS.bump('trigger_while_paused')

    @staticmethod
    def _relevant(trig: dict, flows) -> bool:
        """Is a run with these flow numbers a run in the triggered flow?"""
        if trig['flow'] == 'none':
            return not flows
        return bool(set(flows) & set(trig['F'] or ()))

    def _flows_of(self, w: World, m: Inst) -> Tuple[int, ...]:
        it = self._pool(w).get(m)
        return tuple(sorted(it.flow_nums)) if it is not None else ()

    def _submitted(self, w: World, jk) -> None:
        p, n, num = jk
        m = (n, int(p))
        trig = self.latest(m)
        if trig is None:
            return
        base = trig['base'].get(m, 0)
        if num == base and m in trig['live'] and not trig['had_job'][m]:
            # the live (preparing) job of a group-start member: its
            # submission command only starts now
            trig['had_job'][m] = True
            return
        if num == base and m not in trig['live'] and \
                not trig['had_job'][m] and not trig['subs'].get(m):
            # the member was in job preparation when the trigger removed it
            # (to run it again from scratch), yet the submission of that
            # abandoned job is carried out afterwards
            trig['had_job'][m] = True
            self.bad.append(self.viol(
                'removed-preparing-member-job-still-submitted',
                f'{p}/{n} was preparing job #{num} when the trigger of '
                f'{trig["members"]} (flow={trig["flow"]}) removed it to run '
                'it again; the job submission command of the abandoned job '
                'is executed nevertheless, so the member is submitted twice '
                'after one trigger'))
            return
        # (cylc may reuse a submit number after removing a member from the
        # flow: every jobs-submit after the trigger is a submission)
        subs = trig['subs'].setdefault(m, [])
        flows = self._flows_of(w, m)
        if not self._relevant(trig, flows):
            COUNTS.bump('member_submission_in_another_flow')
            return
        if m in trig['live']:
            self.bad.append(self.viol(
                'live-group-start-resubmitted',
                f'{p}/{n} had a live job when {trig["members"]} was '
                f'triggered (flow={trig["flow"]}, flows of the trigger '
                f'{trig["F"]}) but was submitted again (#{num}, flows '
                f'{flows})'))
        for (onum, oflows) in subs:
            self.bad.append(self.viol(
                'member-ran-twice-after-trigger',
                f'{p}/{n} was submitted twice in the triggered flow '
                f'{trig["F"]} (#{onum} flows {oflows}, #{num} flows '
                f'{flows}) after one trigger of {trig["members"]} '
                f'(flow={trig["flow"]})'))
        subs.append((num, flows))
        COUNTS.bump('member_submissions')

    def _preparing(self, w: World, data: dict) -> None:
        it = None
        for t in w.schd.pool.get_tasks():
            if t.state is data['state']:
                it = t
                break
        if it is None:
            return
        m = (it.tdef.name, int(str(it.point)))
        trig = self.latest(m)
        if trig is None or m in trig['starts'] or m in trig['ignored']:
            return
        if trig['subs'].get(m):
            return      # already ran after the trigger: a later natural run
        if not self._relevant(trig, tuple(it.flow_nums)):
            return      # a run in another flow
        COUNTS.bump('inner_member_prepared')
        if not self.in_group_ok(m, trig):
            want = [a for a in self.in_group_atoms(m, set(trig['members']))]
            self.bad.append(self.viol(
                'inner-member-ran-before-in-group-prerequisite',
                f'{m[1]}/{m[0]} (member of the triggered group '
                f'{trig["members"]}, flow={trig["flow"]}, live start members '
                f'{trig["live"]}) entered job preparation but its in-group '
                f'prerequisites {[(a[1], m[1] + a[2], a[3]) for a in want]} '
                'are not satisfied by outputs produced by the current run '
                f'of those members: {sorted(self.done_set(trig))}'))

    # ------------------------------------------------------------ after
    def after(self, w: World, ev: tuple) -> List[dict]:
        out, self.bad = self.bad, []
        trig, self.fresh = self.fresh, None
        self.cmd = None
        if trig is not None and w.running and ev[0] == 'op':
            pool = self._pool(w)
            for m in trig['starts']:
                if m in trig['live'] or m in trig['ignored']:
                    continue
                it = pool.get(m)
                started = (it is not None and it.state.status in STARTED
                           and (it.state.status in ACTIVE
                                or it.submit_num > trig['base'][m]))
                if started:
                    COUNTS.bump('start_member_started_at_once')
                    continue
                if trig['qfull'].get(m):
                    COUNTS.bump('start_member_queued_queue_full')
                    continue
                why = ('held' if m in trig['held'] else
                       'paused' if trig['paused'] else
                       'queued' if (it is not None and it.state.is_queued)
                       else 'plain')
                st = None if it is None else (
                    it.state.status, 'held' if it.state.is_held else '',
                    'queued' if it.state.is_queued else '')
                out.append(self.viol(
                    f'group-start-not-started:{why}',
                    f'{m[1]}/{m[0]} is a group-start member of the '
                    f'triggered group {trig["members"]} (flow='
                    f'{trig["flow"]}) without a live job, but at the end '
                    'of the iteration that executed the trigger it has not '
                    f'begun job preparation (state {st}; paused='
                    f'{trig["paused"]}, held before={m in trig["held"]})'))
        COUNTS.flush()
        return out

    # --------------------------------------------------------- terminal
    def terminal(self, w: World, kind: str) -> List[dict]:
        out = []
        pool = self._pool(w) if w.running else {}
        paused = w.running and w.schd.is_paused
        if any(j.live for j in w.env.jobs.values()) or w.env.pending():
            return out
        for m in sorted({m for t in self.trigs for m in t['members']}):
            trig = self.latest(m)
            if m in trig['live'] or m in trig['ignored']:
                continue
            if trig['subs'].get(m):
                continue
            if m not in trig['starts']:
                if paused or not self.in_group_ok(m, trig):
                    COUNTS.bump('inner_member_excused')
                    continue
                it = pool.get(m)
                if it is not None and it.state.is_held:
                    COUNTS.bump('inner_member_held_not_judged')
                    continue
            elif trig['qfull'].get(m) and paused:
                continue
            role = 'start' if m in trig['starts'] else 'inner'
            if m in trig.get('inflight', ()):
                # root cause class of its own (recorded finding): the job
                # of the removed proxy is submitted all the same and the
                # respawned proxy, which re-uses the submit number, takes
                # its messages for its own
                role += ':removed-while-jobs-submit-in-flight'
            out.append(self.viol(
                f'member-never-ran:{role}',
                f'{m[1]}/{m[0]} ({role} member of the triggered group '
                f'{trig["members"]}, flow={trig["flow"]}) was never '
                f'submitted after the trigger (run ended {kind})'))
        COUNTS.bump(f'terminal:{kind}')
        COUNTS.flush()
        return out


def prep_window_members(w: World, ref: RefGraph, tids) -> List[Inst]:
    """Members the trigger would remove (they have in-group prerequisites)
    while they are in job preparation (submission command queued or
    running)."""
    members = {parse_inst(t) for t in tids}
    out = []
    pool = w.schd.pool
    for (t, p) in sorted(members):
        it = pool._get_task_by_id(f'{p}/{t}')
        if it is None or it.state.status != 'preparing':
            continue
        # (both halves of the window: command queued but not yet started,
        # and command running - the job is not submitted yet)
        inner = any(
            (a[1], p + a[2]) in members and (a[1], p + a[2]) != (t, p)
            for e in ref.exprs(t, p) for a in atoms(e)
            if not ref.pre_start(a, p))
        if inner:
            out.append((t, p))
    return out


class TriggerProfile(OpProfile):
    def make_world(self):
        wrap_c28()
        return super().make_world()

    def job_steps(self, w, job):
        # a job that is about to be killed (its task was removed by the
        # trigger) makes no further progress: late messages of orphaned
        # jobs are the subject of C10, not of this property
        for proc in w.env.pending():
            if proc.kind == 'jobs-kill' and tuple(job.key) in [
                    tuple(j) for j in proc.jobs]:
                return []
        return super().job_steps(w, job)
