"""C45 monitor/profile: absolute-trigger outputs (foo[^], foo[2]).

The reference is a hand-written table in the spec (never cylc's graph
parser):

    spec['abs']  = [{'task': 's', 'point': 1, 'output': 'succeeded',
                     'message': 'succeeded',
                     'dependents': {'b': [1, 2, 3]}}, ...]

Invariant (from the statement): once the environment has really completed
an absolute output (the job did it, and the scheduler has consumed its
messages), every instance of a dependent that is in the task pool has that
prerequisite atom satisfied - whether it was in the pool at the time,
spawned later, restored by a restart or spawned after a restart.  The
completion is remembered by the harness (the environment's jobs), not by the
scheduler.  Terminal: every dependent instance ran.
"""
from __future__ import annotations

from typing import List, Set

from .monitors import env_done, latest_jobs
from .profile import Monitor, OpProfile
from .world import World


def abs_done(w: World, a: dict) -> bool:
    return (a['task'], int(a['point']), a['output']) in env_done(w)


class AbsTriggers(Monitor):
    name = 'abs-triggers'

    def __init__(self):
        self.bad: List[dict] = []
        self.flags: Set[str] = set()
        self.loading = False      # between 'finished' and 'started'

    def key(self):
        return tuple(sorted(self.flags))

    def on_event(self, kind: str, data: dict) -> None:
        w = self.w
        if kind == 'finished':
            self.loading = True
        elif kind == 'started':
            self.loading = False
        elif kind == 'add' and not self.loading:
            it = data['itask']
            p = int(str(it.point))
            for a in w.spec['abs']:
                if p in a['dependents'].get(it.tdef.name, ()) and \
                        abs_done(w, a):
                    self.flags.add(
                        'late-spawn-after-restart' if w.n_restarts
                        else 'late-spawn')

    def _atoms(self, it, a: dict):
        """(key, state) of the prerequisite atoms of `it` on abs output a."""
        out = []
        for pre in it.state.prerequisites:
            for k, v in pre.items():
                if k.task == a['task'] and str(k.point) == str(a['point']) \
                        and k.output in (a['output'], a['message']):
                    out.append((k, v))
        return out

    def after(self, w: World, ev: tuple) -> List[dict]:
        out, self.bad = self.bad, []
        if not w.running:
            return out
        schd = w.schd
        if schd.message_queue.qsize():
            return out        # job messages not consumed yet
        pool = schd.pool
        if ev[0] == 'restart':
            for a in w.spec['abs']:
                if not abs_done(w, a):
                    self.flags.add('restart-before-abs-output')
                    continue
                have = {(t.tdef.name, int(str(t.point)))
                        for t in pool.get_tasks()}
                ran = {(n, int(p)) for (p, n, _k) in w.env.jobs}
                for d, pts in a['dependents'].items():
                    for p in pts:
                        if (d, p) in have:
                            self.flags.add('restart-dependent-in-pool')
                        elif (d, p) not in ran:
                            self.flags.add('restart-dependent-not-spawned')
        for a in w.spec['abs']:
            if not abs_done(w, a):
                continue
            for it in pool.get_tasks():
                p = int(str(it.point))
                if p not in a['dependents'].get(it.tdef.name, ()):
                    continue
                for k, v in self._atoms(it, a):
                    if v:
                        continue
                    when = ('after-restart' if w.n_restarts else 'no-restart')
                    out.append(self.viol(
                        f'abs-prereq-unsatisfied:{when}',
                        f"{it.identity} is in the pool with its absolute "
                        f"prerequisite {a['point']}/{a['task']}:"
                        f"{a['output']} unsatisfied although that output "
                        f"was completed (restarts so far: {w.n_restarts}; "
                        f"after {ev[0]})"))
        return out

    def terminal(self, w: World, kind: str) -> List[dict]:
        base = kind.split('+')[0]
        if not (base == 'stopped:AUTO' or base.startswith('quiescent')):
            return []
        if any(j.live for j in w.env.jobs.values()) or w.env.pending():
            return []
        latest = latest_jobs(w)
        missing = []
        for a in w.spec['abs']:
            if not abs_done(w, a):
                continue
            for d, pts in sorted(a['dependents'].items()):
                for p in pts:
                    job = latest.get((str(p), d))
                    if job is None or job.state != 'succeeded':
                        missing.append(f'{p}/{d}')
        if missing:
            when = 'after-restart' if w.n_restarts else 'no-restart'
            return [self.viol(
                f'abs-dependent-never-ran:{when}',
                f'run ended ({base}) but the dependents {sorted(set(missing))}'
                f' of completed absolute outputs never ran (restarts: '
                f'{w.n_restarts})')]
        return []


class C45Profile(OpProfile):
    def terminal_kind(self, w: World) -> str:
        base = super().terminal_kind(w)
        mon = next((m for m in self.monitors
                    if isinstance(m, AbsTriggers)), None)
        flags = sorted(mon.flags) if mon is not None else []
        return base + ''.join('+' + f for f in flags)
