"""World = real Scheduler + environment model (jobs, commands, operator).

A World is driven one *event* at a time; after each event the scheduler
coroutine runs exactly one main-loop iteration (until it awaits the
end-of-iteration sleep again) or to its end.
"""
from __future__ import annotations

import asyncio
import json
import logging
import os
import shutil
from pathlib import Path
from typing import Any, Callable, Dict, List, Optional, Tuple

from . import harness as H
from .harness import CLOCK, ENV_REF, FakeProc, VirtualLoop

JobKey = Tuple[str, str, int]   # (point, name, submit_num)


class Job:
    __slots__ = ('key', 'state', 'emitted', 'sent', 'killed', 'launches',
                 'inflight')

    def __init__(self, key: JobKey):
        self.key = key
        # launching -> submitted -> running -> succeeded|failed
        #           -> submit-failed
        self.state = 'launching'
        self.emitted: List[str] = []     # custom output messages emitted
        self.sent: List[str] = []        # messages delivered to scheduler
        self.killed = False
        self.launches = 1
        self.inflight: List[str] = []    # emitted but undelivered messages

    def canon(self):
        return (self.key, self.state, tuple(self.emitted),
                tuple(self.inflight), self.killed, self.launches)

    @property
    def live(self):
        return self.state in ('launching', 'submitted', 'running')


class EnvModel:
    """Jobs and running commands (the only model in Engine A)."""

    def __init__(self):
        self.jobs: Dict[JobKey, Job] = {}
        self.procs: List[FakeProc] = []       # started, not yet reaped
        self.cmd_log: List[Tuple[str, tuple]] = []   # every command started
        self.double_launch: List[JobKey] = []
        self.world: Optional['World'] = None

    # called by FakePool._run_command_init
    def on_command_start(self, proc: FakeProc) -> None:
        ctx = proc.ctx
        key = getattr(ctx, 'cmd_key', None)
        if isinstance(key, tuple):
            key = key[0]
        proc.kind = key if isinstance(key, str) else str(key)
        proc.jobs = []
        if proc.kind in ('jobs-submit', 'jobs-poll', 'jobs-kill'):
            dirs = ctx.cmd_kwargs.get('job_log_dirs')
            if dirs is None:
                # poll/kill: the job dirs are the trailing args of the cmd
                dirs = [a for a in ctx.cmd if a.count('/') == 2
                        and a.rsplit('/', 1)[1].isdigit()]
            for d in dirs:
                point, name, num = d.split('/')
                proc.jobs.append((point, name, int(num)))
        self.procs.append(proc)
        self.cmd_log.append((proc.kind, tuple(proc.jobs)))
        if proc.kind == 'jobs-submit':
            for jk in proc.jobs:
                if jk in self.jobs and \
                        self.jobs[jk].state == 'never-launched':
                    # the earlier submit command died before launching
                    self.jobs[jk] = Job(jk)
                elif jk in self.jobs:
                    # launched twice under the same submit number
                    self.jobs[jk].launches += 1
                    self.double_launch.append(jk)
                    self.jobs[jk].state = 'launching'
                else:
                    self.jobs[jk] = Job(jk)
        if self.world is not None:
            self.world.emit('cmd_start', kind=proc.kind, jobs=list(proc.jobs),
                            ctx=ctx)

    def pending(self) -> List[FakeProc]:
        self.procs = [p for p in self.procs if p.returncode is None]
        return self.procs

    def canon(self):
        return (
            tuple(sorted(j.canon() for j in self.jobs.values())),
            tuple((p.kind, tuple(p.jobs)) for p in self.pending()),
        )


def now_str() -> str:
    from cylc.flow.wallclock import get_current_time_string
    return get_current_time_string()


class SchedulerDied(Exception):
    pass


class World:
    """One scheduler run directory + environment; not copyable (fork it)."""

    def __init__(self, wid: str, flow_text: str, options: Optional[dict] = None,
                 global_text: str = ''):
        H.install_seams()
        self.wid = wid
        self.flow_text = flow_text
        self.options = dict(options or {})
        self.run_dir = H.make_run_dir(wid, flow_text)
        if global_text:
            conf = Path(os.environ['CYLC_CONF_PATH'])
            (conf / 'global.cylc').write_text(global_text)
        self.env = EnvModel()
        self.env.world = self
        ENV_REF[0] = self.env
        self.loop: Optional[VirtualLoop] = None
        self.schd = None
        self.task: Optional[asyncio.Task] = None
        self.events: List[Tuple[str, dict]] = []   # funnel log (per step)
        self.listeners: List[Callable[[str, dict], None]] = []
        self.history: List[tuple] = []
        self.n_restarts = 0
        self.finished: Optional[str] = None  # reason string once stopped
        self.error: Optional[BaseException] = None
        self.iterations = 0

    # ------------------------------------------------------------ plumbing
    def emit(self, _ev: str, **data) -> None:
        self.events.append((_ev, data))
        for fn in self.listeners:
            fn(_ev, data)

    def boot(self, **opt_over) -> None:
        """Construct and start a Scheduler on the run dir (start or restart),
        and run it to its first main-loop boundary."""
        from cylc.flow.scheduler import Scheduler
        from cylc.flow.scheduler_cli import RunOptions
        from cylc.flow.cfgspec.glbl_cfg import glbl_cfg
        import cylc.flow.flags
        opts = H.default_options(**{**self.options, **opt_over})
        if self.loop is None:
            self.loop = VirtualLoop()
        asyncio.set_event_loop(self.loop)
        self.loop.assert_running()
        glbl_cfg(reload=True)
        self.finished = None
        self.error = None
        schd = Scheduler(self.wid, RunOptions(**opts))
        self.schd = schd
        wrap_funnels(self)

        async def main():
            await schd.install()
            await schd.start()
            H.install_clock()
            self.emit('started', restart=schd.is_restart)
            await schd.run_scheduler()

        self.task = self.loop.create_task(main())
        self.task.add_done_callback(self._done)
        self._run_until_boundary()
        # time is frozen between jumps: let timers armed with a zero interval
        # during start-up (restart timeout = PT0S) be *past* due
        CLOCK.now += 0.001

    def _done(self, task):
        try:
            exc = task.exception()
        except asyncio.CancelledError:
            exc = None
        if exc is not None:
            self.error = exc
            self.finished = f'error:{type(exc).__name__}:{exc}'
        else:
            schd = self.schd
            mode = getattr(schd, 'stop_mode', None)
            self.finished = f'stopped:{mode.name if mode else None}'
        self.emit('finished', reason=self.finished)

    def _run_until_boundary(self) -> None:
        self.loop.assert_running()
        self.loop.drain()
        self.iterations += 1
        if self.loop._exc:
            ctx = self.loop._exc.pop(0)
            raise SchedulerDied(str(ctx))

    @property
    def running(self) -> bool:
        return self.task is not None and not self.task.done()

    def resume(self, extra: float = 0.0) -> None:
        """End the scheduler's end-of-iteration sleep and run one main-loop
        iteration. Virtual time does NOT advance on its own (the sleep timer
        is fired early): time only moves through explicit `jump` events
        (`extra` seconds here), so a self-loop tick really is a no-op and
        event prefixes replay identically however many idle ticks the
        original execution contained."""
        if not self.running:
            return
        import heapq
        loop = self.loop
        while loop._scheduled and loop._scheduled[0]._cancelled:
            h = heapq.heappop(loop._scheduled)
            h._scheduled = False
        if loop._scheduled:
            h = heapq.heappop(loop._scheduled)
            h._scheduled = False
            loop._ready.append(h)
        CLOCK.now += extra
        self._run_until_boundary()

    def run_coro(self, coro):
        """Run a coroutine that never really suspends to completion."""
        self.loop.assert_running()
        t = self.loop.create_task(coro)
        self.loop.drain()
        if not t.done():
            raise RuntimeError('command coroutine did not complete')
        return t.result()

    def dispose(self) -> None:
        """Release OS resources of a world that will not be used again."""
        try:
            self.close_db()
            pp = getattr(self.schd, 'proc_pool', None)
            if pp is not None:
                pp.pipepoller.close()
        except Exception:
            pass
        if self.task is not None and not self.task.done():
            self.task.cancel()
            # do not run the cancellation: just forget the coroutine
            self.task._log_destroy_pending = False
        self.listeners.clear()

    def close_db(self) -> None:
        mgr = getattr(self.schd, 'workflow_db_mgr', None)
        if mgr is not None:
            for dao in (mgr.pri_dao, mgr.pub_dao):
                if dao is not None:
                    dao.close()

    # ---------------------------------------------------------- job events
    def deliver(self, jk: JobKey, message: str, severity: str = 'INFO',
                submit_num: Optional[int] = None) -> None:
        """Put a TaskMsg on the scheduler's queue, as the server would."""
        from cylc.flow.id import Tokens
        from cylc.flow.network.resolvers import TaskMsg
        point, name, num = jk
        if submit_num is not None:
            num = submit_num
        if not self.running:
            return   # server unreachable: message lost
        self.schd.message_queue.put(TaskMsg(
            Tokens(f'{point}/{name}/{num:02d}', relative=True),
            now_str(), severity, message))
        self.emit('deliver', job=jk, message=message, submit_num=num)

    def job_step(self, jk: JobKey, what: str, deliver: bool = True) -> None:
        """The job takes its next step `what` (and reports it)."""
        job = self.env.jobs[jk]
        if what == 'started':
            assert job.state == 'submitted', (jk, job.state)
            job.state = 'running'
            msg, sev = 'started', 'INFO'
        elif what == 'succeeded':
            assert job.state == 'running', (jk, job.state)
            job.state = 'succeeded'
            msg, sev = 'succeeded', 'INFO'
        elif what == 'failed':
            assert job.state == 'running', (jk, job.state)
            job.state = 'failed'
            msg, sev = 'failed/ERR', 'CRITICAL'
        elif what.startswith('out:'):
            assert job.state == 'running', (jk, job.state)
            msg, sev = what[4:], 'INFO'
            job.emitted.append(msg)
        else:
            raise ValueError(what)
        self.emit('job_step', job=jk, what=what)
        if deliver:
            job.sent.append(msg)
            self.deliver(jk, msg, sev)
        else:
            job.inflight.append(msg)

    # ------------------------------------------------------ command events
    def finish_cmd(self, idx: int, variant: str = 'ok') -> None:
        """Complete the idx-th pending FakeProc."""
        proc = self.env.pending()[idx]
        kind = proc.kind
        t = now_str()
        if kind == 'jobs-submit':
            lines = []
            for jk in proc.jobs:
                job = self.env.jobs[jk]
                path = f'{jk[0]}/{jk[1]}/{jk[2]:02d}'
                if variant == 'ok':
                    job.state = 'submitted'
                    lines.append(
                        f'[TASK JOB SUMMARY]{t}|{path}|0|{1000 + len(self.env.jobs)}')
                else:
                    job.state = 'submit-failed'
                    lines.append(f'[TASK JOB SUMMARY]{t}|{path}|1|None')
            proc.finish(0 if variant == 'ok' else 1, '\n'.join(lines) + '\n')
        elif kind == 'jobs-poll':
            proc.finish(0, self._poll_output(proc.jobs))
        elif kind == 'jobs-kill':
            lines = []
            for jk in proc.jobs:
                job = self.env.jobs.get(jk)
                path = f'{jk[0]}/{jk[1]}/{jk[2]:02d}'
                if job is not None and job.live and variant == 'ok':
                    job.killed = True
                    job.state = (
                        'failed' if job.state == 'running'
                        else 'submit-failed')
                    lines.append(f'[TASK JOB SUMMARY]{t}|{path}|0')
                else:
                    lines.append(f'[TASK JOB SUMMARY]{t}|{path}|1')
            proc.finish(0, '\n'.join(lines) + '\n')
        elif kind.startswith('xtrigger') or hasattr(proc.ctx, 'func_name'):
            # xtrigger function call: variant 'true' / 'false'
            sat = variant == 'true'
            res = [sat, {'v': 1} if sat else {}]
            proc.finish(0, json.dumps(res))
        else:
            # event handlers, mail, etc.
            proc.finish(0 if variant == 'ok' else 1, '')
        self.emit('cmd_done', kind=kind, jobs=list(proc.jobs),
                  variant=variant, ctx=proc.ctx)

    def _poll_output(self, jobs: List[JobKey]) -> str:
        from cylc.flow.job_runner_mgr import JobPollContext
        t = now_str()
        out = []
        for jk in jobs:
            job = self.env.jobs.get(jk)
            path = f'{jk[0]}/{jk[1]}/{jk[2]:02d}'
            attrs: Dict[str, Any] = {'job_runner_name': 'background'}
            if job is not None and job.state in (
                    'launching', 'never-launched'):
                # job directory exists (job file written) but there is no
                # job.status file yet: the real `cylc jobs-poll` prints no
                # summary line for it (=> "poll failed", no state change)
                continue
            if job is None:
                # no job directory at all: reported as vanished
                attrs['job_runner_exit_polled'] = 1
                attrs['run_status'] = 1
                attrs['run_signal'] = 'ERR_JOB_FILES_REMOVED'
            else:
                attrs['job_id'] = '1234'
                attrs['time_submit_exit'] = t
                if job.state == 'submit-failed':
                    attrs['job_runner_exit_polled'] = 1
                elif job.state == 'submitted':
                    attrs['job_runner_exit_polled'] = 0
                elif job.state == 'running':
                    attrs['job_runner_exit_polled'] = 0
                    attrs['time_run'] = t
                elif job.state == 'succeeded':
                    attrs['job_runner_exit_polled'] = 1
                    attrs['time_run'] = t
                    attrs['time_run_exit'] = t
                    attrs['run_status'] = 0
                elif job.state == 'failed':
                    attrs['job_runner_exit_polled'] = 1
                    attrs['time_run'] = t
                    attrs['time_run_exit'] = t
                    attrs['run_status'] = 1
                    attrs['run_signal'] = 'TERM' if job.killed else 'ERR'
            ctx = JobPollContext(path, **attrs)
            out.append(f'[TASK JOB SUMMARY]{t}|{ctx.get_summary_str()}')
            if job is not None:
                for msg in job.emitted:
                    if msg == 'vanished':
                        continue
                    out.append(f'[TASK JOB MESSAGE]{t}|{path}|{t}|INFO|{msg}')
        return '\n'.join(out) + '\n'

    # ------------------------------------------------------------ operator
    def command(self, name: str, **kwargs) -> Tuple[bool, str]:
        """Queue an operator command through the real Resolvers mapper."""
        res = self.run_coro(self.schd.server.resolvers._mutation_mapper(
            name, kwargs, {}))
        self.emit('command', name=name, kwargs=kwargs, result=res)
        return res

    # ------------------------------------------------------------- restart
    def restart(self, **opt_over) -> None:
        assert not self.running
        self.n_restarts += 1
        # jobs-submit commands that had not been started are gone with the
        # old process; FakeProcs die with it too
        self.env.procs = []
        self.boot(**opt_over)


# ---------------------------------------------------------------------------
# observation funnels

_WRAPPED = False


def wrap_funnels(world: 'World') -> None:
    """Transparent wrappers that call the original and log the effect."""
    global _WRAPPED
    _CUR[0] = world
    if _WRAPPED:
        return
    _WRAPPED = True
    from cylc.flow.task_state import TaskState
    from cylc.flow.task_pool import TaskPool
    from cylc.flow.task_outputs import TaskOutputs
    from cylc.flow.scheduler import Scheduler

    o_reset = TaskState.reset

    def reset(self, *a, **kw):
        before = (self.status, self.is_held, self.is_queued,
                  self.is_runahead)
        ret = o_reset(self, *a, **kw)
        after = (self.status, self.is_held, self.is_queued, self.is_runahead)
        w = _CUR[0]
        if w is not None and before != after:
            w.emit('reset', state=self, before=before, after=after)
        return ret
    TaskState.reset = reset

    o_smc = TaskOutputs.set_message_complete

    def set_message_complete(self, message, *a, **kw):
        ret = o_smc(self, message, *a, **kw)
        w = _CUR[0]
        if w is not None and ret:
            w.emit('output', outputs=self, message=message)
        return ret
    TaskOutputs.set_message_complete = set_message_complete

    o_add = TaskPool.add_to_pool

    def add_to_pool(self, itask, *a, **kw):
        ret = o_add(self, itask, *a, **kw)
        w = _CUR[0]
        if w is not None:
            w.emit('add', itask=itask)
        return ret
    TaskPool.add_to_pool = add_to_pool

    o_rm = TaskPool.remove

    def remove(self, itask, *a, **kw):
        w = _CUR[0]
        if w is not None:
            w.emit('remove', itask=itask,
                   reason=(a[0] if a else kw.get('reason')))
        return o_rm(self, itask, *a, **kw)
    TaskPool.remove = remove

    o_stop = Scheduler._set_stop

    def _set_stop(self, stop_mode=None):
        w = _CUR[0]
        if w is not None:
            w.emit('set_stop', mode=stop_mode)
        return o_stop(self, stop_mode)
    Scheduler._set_stop = _set_stop

    o_pcq = Scheduler.process_command_queue

    async def process_command_queue(self):
        before = self.command_queue.qsize()
        ret = await o_pcq(self)
        w = _CUR[0]
        n = before - self.command_queue.qsize()
        if w is not None and n > 0:
            w.emit('cmd_processed', n=n)
        return ret
    Scheduler.process_command_queue = process_command_queue

    o_stall = Scheduler.check_workflow_stalled

    def check_workflow_stalled(self):
        was = self.is_stalled
        ret = o_stall(self)
        w = _CUR[0]
        if w is not None and self.is_stalled and not was:
            w.emit('stalled')
        return ret
    Scheduler.check_workflow_stalled = check_workflow_stalled


_CUR: List[Optional[World]] = [None]
