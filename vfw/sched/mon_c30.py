"""C30: removing a task undoes exactly its effects.

`RemoveFrame` snapshots the pool right before the scheduler processes a
queued `remove_tasks` command and right after, and the private database
before the command and at the end of that main-loop iteration. The reference
is the property statement, evaluated over the *before* snapshot and the
catalogue term (children of the removed instance come from `RefGraph`):

MUST  * the target loses exactly the requested flows it had (all of them
        without --flow) and is out of the pool iff none remain;
      * no task_states/task_outputs row of the target still carries a removed
        flow at the end of the iteration;
      * for a child living only in removed flows, every atom on the target
        that is satisfied otherwise than 'force satisfied' becomes
        unsatisfied, and if the child is then waiting without a single
        satisfied atom it is out of the pool;
MAY   * (children that also live in other flows) the same atoms may be unset;
FRAME * nothing else changes: no other task appears or disappears, no other
        task's flows, completed outputs or prerequisite atoms differ, no
        'force satisfied' atom and no atom on another parent is unset, no
        other task's database rows lose flows or outputs.

"So it can run again later" (liveness): an instance that was removed and is in
the pool again (respawned by its flow, by another flow, or by a follow-up
`cylc set --pre=all`) with all its prerequisites satisfied must not be left
waiting in a quiescent state (the alphabet contains no hold command); after a
follow-up `set --pre=all` in a removed flow it must be respawned and submitted.
"""
from __future__ import annotations

import json
import sqlite3
from typing import Dict, FrozenSet, List, Optional, Set, Tuple

from .catalogue import RefGraph
from .mon_c08 import Counters
from .profile import Monitor
from .world import World, _CUR

Inst = Tuple[str, str]          # (name, point-string)
FORCED = 'force satisfied'
COUNT = Counters('c30')

_WRAPPED = False


def wrap_c30() -> None:
    """Emit `c30_cmd` around the execution of queued commands."""
    global _WRAPPED
    if _WRAPPED:
        return
    _WRAPPED = True
    from cylc.flow.scheduler import Scheduler
    o_pcq = Scheduler.process_command_queue

    async def process_command_queue(self):
        w = _CUR[0]
        n = self.command_queue.qsize()
        if w is not None and n:
            w.emit('c30_cmd', phase='before')
        ret = await o_pcq(self)
        if w is not None and n:
            w.emit('c30_cmd', phase='after')
        return ret
    Scheduler.process_command_queue = process_command_queue


def pool_snapshot(w: World) -> Dict[Inst, dict]:
    out = {}
    for t in w.schd.pool.get_tasks():
        atoms = {}
        for i, pre in enumerate(t.state.prerequisites):
            for k, v in pre.items():
                atoms[(i, str(k.point), str(k.task), str(k.output))] = (
                    v if v else False)
        out[(t.tdef.name, str(t.point))] = {
            'flows': frozenset(t.flow_nums),
            'status': t.state.status,
            'outputs': frozenset(
                m for m, dn in t.state.outputs._completed.items() if dn),
            'atoms': atoms,
        }
    return out


def db_snapshot(w: World, close: bool = True) -> Dict[str, list]:
    """table -> [(name, point, frozenset(flows), payload)]."""
    if close:
        w.close_db()
    out = {'task_states': [], 'task_outputs': []}
    try:
        conn = sqlite3.connect(
            f'file:{w.schd.workflow_db_mgr.pri_path}?mode=ro', uri=True,
            timeout=1)
    except sqlite3.Error:
        return out
    try:
        for n, c, f, s in conn.execute(
                'SELECT name, cycle, flow_nums, status FROM task_states'):
            out['task_states'].append(
                (n, str(c), frozenset(json.loads(f)), s))
        for n, c, f, o in conn.execute(
                'SELECT name, cycle, flow_nums, outputs FROM task_outputs'):
            try:
                outs = json.loads(o) if o else {}
            except ValueError:
                outs = {}
            outs = frozenset(outs if isinstance(outs, list) else outs.keys())
            out['task_outputs'].append(
                (n, str(c), frozenset(json.loads(f)), outs))
    finally:
        conn.close()
    return out


def _fs(x) -> str:
    return '{' + ','.join(str(i) for i in sorted(x)) + '}'


def _id(inst: Inst) -> str:
    return f'{inst[1]}/{inst[0]}'


class RemoveFrame(Monitor):
    name = 'remove-frame'

    def __init__(self):
        self.bad: List[dict] = []
        self.pending_cmd: Optional[tuple] = None
        self.judging: Optional[dict] = None
        self.rerun_pending: Optional[Inst] = None   # follow-up liveness
        self.removed_finished: Set[Tuple[Inst, FrozenSet[int]]] = set()
        self.ref: Optional[RefGraph] = None

    def attach(self, w: World) -> None:
        wrap_c30()
        super().attach(w)
        s = w.spec
        self.ref = RefGraph(s['sections'], s['icp'], s['fcp'])
        COUNT.flush()

    def key(self):
        return (self.rerun_pending,
                tuple(sorted((i, tuple(sorted(f)))
                             for i, f in self.removed_finished)))

    # ------------------------------------------------------------ events
    def on_event(self, kind: str, data: dict) -> None:
        w = self.w
        if kind == 'command':
            ok = bool(data['result'][0]) if data.get('result') else False
            self.pending_cmd = (data['name'], data['kwargs']) if ok else None
        elif kind == 'finished':
            self.pending_cmd = None
            self.judging = None
        elif kind == 'c30_cmd':
            cmd = self.pending_cmd
            if cmd is None:
                return
            if data['phase'] == 'before':
                if cmd[0] == 'remove_tasks':
                    self.judging = {
                        'cmd': cmd, 'pool': pool_snapshot(w),
                        'db': db_snapshot(w, close=False)}
                elif cmd[0] == 'set':
                    self.pre_set = set(pool_snapshot(w))
            else:
                self.pending_cmd = None
                if cmd[0] == 'remove_tasks' and self.judging:
                    self.judging['pool_after'] = pool_snapshot(w)
                    self._judge_pool(self.judging)
                elif cmd[0] == 'set' and self.rerun_pending is None:
                    self._note_followup(cmd[1])
        elif kind == 'add':
            it = data['itask']
            if any(X == (it.tdef.name, str(it.point))
                   for X, _ in self.removed_finished):
                COUNT.inc('removed-instance-respawned')
        elif kind == 'cmd_start' and data['kind'] == 'jobs-submit':
            for (p, name, num) in data['jobs']:
                if self.rerun_pending == (name, p):
                    self.rerun_pending = None
                    COUNT.inc('removed-instance-ran-again')

    def _children(self, inst: Inst) -> Set[Inst]:
        kids: Set[Inst] = set()
        for o in ('submitted', 'started', 'succeeded', 'failed',
                  'submit-failed', 'expired'):
            kids.update((t, str(q)) for t, q in self.ref.children(
                (inst[0], int(inst[1]), o)))
        kids.discard(inst)
        return kids

    @staticmethod
    def _target(kw) -> Tuple[Inst, FrozenSet[int]]:
        tid = kw['tasks'][0]
        p, n = tid.split('/')[:2]
        req = frozenset(int(f) for f in (kw.get('flow') or [])
                        if f != 'all')
        return (n.split(':')[0], p), req

    # ------------------------------------------------------ pool judgment
    def _judge_pool(self, J: dict) -> None:
        kw = J['cmd'][1]
        X, R = self._target(kw)
        before, after = J['pool'], J['pool_after']
        db = J['db']
        how = 'flow' if R else 'all'
        COUNT.inc(f'removals-processed:{how}')
        V = self.bad.append
        tag = f'remove {_id(X)}' + (f' --flow={_fs(R)}' if R else '')

        # ---- what the target loses
        hist = set()
        for tab in ('task_states', 'task_outputs'):
            for n, p, f, _ in db[tab]:
                if (n, p) == X:
                    hist |= set(f)
        hist_removed = frozenset(hist if not R else hist & R)
        finished_before = any(
            (n, p) == X and s == 'succeeded' and (f & R if R else f)
            for n, p, f, s in db['task_states'])
        J.update(X=X, R=R, hist_removed=hist_removed, tag=tag)
        bx = before.get(X)
        rx: FrozenSet[int] = frozenset()
        if bx is not None:
            COUNT.inc(f'target-in-pool:{bx["status"]}')
            if not bx['flows']:
                # no-flow instance: "its flows" is empty - not judged
                COUNT.inc('target-no-flow-skipped')
                self.judging = None
                return
            rx = bx['flows'] if not R else bx['flows'] & R
            left = bx['flows'] - rx
            ax = after.get(X)
            if left:
                COUNT.inc('target-kept-in-other-flows')
                if ax is None:
                    V(self.viol(
                        'remove:target-removed-though-flows-remain',
                        f'{tag}: it was in flows {_fs(bx["flows"])}, '
                        f'{_fs(left)} remain but it left the pool'))
                elif ax['flows'] != left:
                    V(self.viol(
                        'remove:target-flows-wrong',
                        f'{tag}: it was in flows {_fs(bx["flows"])} and is '
                        f'now in {_fs(ax["flows"])}, expected {_fs(left)}'))
            elif ax is not None:
                V(self.viol(
                    'remove:target-still-in-pool',
                    f'{tag}: no flow remains (it was in {_fs(bx["flows"])})'
                    f' but it is still in the pool in {_fs(ax["flows"])}'))
            else:
                COUNT.inc('target-left-pool')
            if not rx and ax is not None and ax != bx:
                V(self.viol(
                    'remove:target-not-in-flow-but-changed',
                    f'{tag}: it is not in the requested flows '
                    f'({_fs(bx["flows"])}) yet it changed'))
        else:
            COUNT.inc('target-not-in-pool')
            if X in after:
                V(self.viol('remove:task-appeared',
                            f'{tag}: {_id(X)} appeared in the pool'))
        effective = bool(rx) or bool(hist_removed)
        if effective:
            COUNT.inc('removals-effective')
        if effective:
            # (finished or active: "so it can run again later" holds for both)
            self.removed_finished.add((X, R))
            if finished_before:
                COUNT.inc('removed-after-finishing')

        # ---- children
        kids = self._children(X)
        allowed_gone: Set[Inst] = set()
        for C in sorted(kids):
            bc = before.get(C)
            if bc is None:
                continue
            ac = after.get(C)
            fc = bc['flows']
            match = fc if not R else fc & R
            x_atoms = {k: v for k, v in bc['atoms'].items()
                       if (k[2], k[1]) == X}
            natural = {k for k, v in x_atoms.items() if v and v != FORCED}
            forced = {k for k, v in x_atoms.items() if v == FORCED}
            if forced:
                COUNT.inc('child-with-forced-atom-on-target')
            if natural:
                COUNT.inc('child-with-natural-atom-on-target')
            may_unset = natural if match else set()
            must_unset = natural if (
                effective and fc and match == fc) else set()
            # would the child be left without any satisfied atom?
            rest = [v for k, v in bc['atoms'].items()
                    if k not in may_unset and v]
            if may_unset and not rest:
                allowed_gone.add(C)
            if ac is None:
                if C in allowed_gone:
                    COUNT.inc('child-removed-no-satisfied-prereq')
                else:
                    why = ('forced' if forced else
                           'other-parent' if rest else 'nothing-unset')
                    V(self.viol(
                        f'remove:child-with-satisfied-prereq-removed:{why}',
                        f'{tag}: child {_id(C)} {_fs(fc)} left the pool '
                        f'although it keeps satisfied prerequisites '
                        f'{sorted(k[1:] for k, v in bc["atoms"].items() if k not in may_unset and v)}'))
                continue
            # child still here
            if ac['flows'] != fc:
                V(self.viol(
                    'remove:child-flows-changed',
                    f'{tag}: child {_id(C)} flows {_fs(fc)} -> '
                    f'{_fs(ac["flows"])}'))
            if ac['outputs'] != bc['outputs']:
                V(self.viol(
                    'remove:child-outputs-changed',
                    f'{tag}: child {_id(C)} outputs '
                    f'{sorted(bc["outputs"])} -> {sorted(ac["outputs"])}'))
            for k, v in bc['atoms'].items():
                nv = ac['atoms'].get(k, 'missing')
                if nv == v:
                    if k in must_unset:
                        V(self.viol(
                            'remove:natural-prereq-not-unset',
                            f'{tag}: child {_id(C)} {_fs(fc)} keeps '
                            f'{k[1]}/{k[2]}:{k[3]} = {v!r}'))
                    continue
                if k in may_unset and nv is False:
                    COUNT.inc('natural-atom-unset')
                    continue
                what = ('forced' if v == FORCED else
                        'other-parent' if (k[2], k[1]) != X else
                        'child-not-in-removed-flows' if not match else
                        'changed')
                V(self.viol(
                    f'remove:prereq-wrongly-changed:{what}',
                    f'{tag}: child {_id(C)} {_fs(fc)} atom '
                    f'{k[1]}/{k[2]}:{k[3]} went {v!r} -> {nv!r}'))
            if (must_unset and C in allowed_gone
                    and bc['status'] == 'waiting' and match == fc
                    and not any(ac['atoms'].values())):
                V(self.viol(
                    'remove:child-without-satisfied-prereq-kept',
                    f'{tag}: waiting child {_id(C)} {_fs(fc)} has no '
                    'satisfied prerequisite left but stays in the pool'))
        J['allowed_gone'] = allowed_gone

        # ---- frame: every other task
        for T in sorted(set(before) | set(after)):
            if T == X or T in kids:
                continue
            bt, at = before.get(T), after.get(T)
            if bt is None:
                V(self.viol('remove:task-appeared',
                            f'{tag}: {_id(T)} appeared in the pool'))
            elif at is None:
                V(self.viol('remove:unrelated-task-removed',
                            f'{tag}: {_id(T)} (not a child) left the pool'))
            else:
                for part in ('flows', 'outputs', 'atoms'):
                    if bt[part] != at[part]:
                        V(self.viol(
                            f'remove:unrelated-task-changed:{part}',
                            f'{tag}: {_id(T)} {part} changed: {bt[part]!r}'
                            f' -> {at[part]!r}'))
        for C in sorted(kids):
            if C not in before and C in after:
                V(self.viol('remove:task-appeared',
                            f'{tag}: child {_id(C)} appeared in the pool'))

    # -------------------------------------------------------- db judgment
    def _judge_db(self, w: World, J: dict) -> List[dict]:
        out = []
        X, R, tag = J['X'], J['R'], J['tag']
        gone = J.get('allowed_gone', set())
        now = db_snapshot(w)
        for tab in ('task_states', 'task_outputs'):
            for n, p, f, _ in now[tab]:
                if (n, p) != X:
                    continue
                bad = f if not R else f & R
                if bad:
                    out.append(self.viol(
                        f'remove:db-history-kept:{tab}',
                        f'{tag}: {tab} still has a row for {_id(X)} in '
                        f'flows {_fs(f)} at the end of the iteration'))
            have = {}
            for n, p, f, pay in now[tab]:
                have.setdefault((n, p, f), []).append(pay)
            for n, p, f, pay in J['db'][tab]:
                if (n, p) == X or (n, p) in gone:
                    continue
                if (n, p, f) not in have:
                    out.append(self.viol(
                        f'remove:other-db-row-lost-flows:{tab}',
                        f'{tag}: the {tab} row of {p}/{n} in flows {_fs(f)} '
                        'is gone / has other flows afterwards'))
                elif tab == 'task_outputs' and not any(
                        pay <= q for q in have[(n, p, f)]):
                    out.append(self.viol(
                        'remove:other-db-row-lost-outputs',
                        f'{tag}: task_outputs of {p}/{n} {_fs(f)} lost '
                        f'outputs: {sorted(pay)} -> '
                        f'{[sorted(q) for q in have[(n, p, f)]]}'))
        if J['hist_removed']:
            COUNT.inc('db-history-erased-checked')
        return out

    def _note_followup(self, kw) -> None:
        """`set --pre=all X` after X was removed: X must run again."""
        if kw.get('prerequisites') != ['all']:
            return
        X, R = self._target(kw)
        for (Y, RY) in self.removed_finished:
            if Y == X and (not RY or (R and R <= RY)):
                if X in getattr(self, 'pre_set', ()):
                    return      # still/again in the pool: nothing to expect
                if X not in pool_snapshot(self.w):
                    # refused (e.g. beyond a bound): nothing to expect
                    COUNT.inc('followup-not-spawned')
                    self.bad.append(self.viol(
                        'remove:removed-task-not-respawned',
                        f'{_id(X)} was removed from flows '
                        f'{_fs(RY) if RY else "all"}, and set --pre=all '
                        f'--flow={_fs(R) if R else "default"} did not spawn '
                        'it again'))
                    return
                self.rerun_pending = X
                COUNT.inc('followups')
                return

    # -------------------------------------------------------------- steps
    def after(self, w: World, ev: tuple) -> List[dict]:
        out, self.bad = self.bad, []
        J, self.judging = self.judging, None
        if J is not None and 'X' in J and w.running:
            out.extend(self._judge_db(w, J))
        return out

    def terminal(self, w: World, kind: str) -> List[dict]:
        COUNT.inc('terminals')
        COUNT.flush()
        if w.env.pending() or any(j.live for j in w.env.jobs.values()):
            return []
        out = []
        removed = {X for X, _ in self.removed_finished}
        if kind.startswith('quiescent') and w.running:
            # nothing can happen any more: an instance that was removed
            # earlier, is in the pool again and has all its prerequisites,
            # will never run (no hold command exists in the alphabet)
            for t in w.schd.pool.get_tasks():
                inst = (t.tdef.name, str(t.point))
                st = t.state
                if inst in removed and st.status == 'waiting' and \
                        st.prerequisites_all_satisfied():
                    why = ('held' if st.is_held else
                           'queued' if st.is_queued else
                           'runahead' if st.is_runahead else 'ready')
                    out.append(self.viol(
                        f'remove:respawned-instance-never-runs:{why}',
                        f'{_id(inst)} was removed earlier, is in the pool '
                        f'again (flows {_fs(t.flow_nums)}) with all its '
                        f'prerequisites satisfied, but it is {why} and '
                        f'nothing can happen any more ({kind})'))
                    if inst == self.rerun_pending:
                        self.rerun_pending = None
        if self.rerun_pending is not None and (
                kind.startswith('quiescent') or kind == 'stopped:AUTO'):
            X = self.rerun_pending
            out.append(self.viol(
                'remove:removed-task-never-ran-again',
                f'{_id(X)} was removed and then given all its prerequisites '
                f'again, but the run ended ({kind}) without it being '
                'submitted again'))
        return out
