"""Canonical (hashable, sorted) projection of a World (DESIGN.md 3.5)."""
from __future__ import annotations

import hashlib
import sqlite3
from typing import Any

from .harness import CLOCK


def _s(x) -> Any:
    return None if x is None else str(x)


# Deadlines are abstracted: the key holds, per timer, whether it is already
# due, and (globally) the *order* in which the pending deadlines will fire -
# not their distances. A `jump` event advances the clock to the earliest one.
_DEADLINES: list = []


def _due(name, when):
    """Register a deadline; return 'due' / 'pending' / None."""
    if when is None:
        return None
    if when <= CLOCK.now:
        return 'due'
    _DEADLINES.append((when, name))
    return 'pending'


def _timer(t, name='t'):
    if t is None:
        return None
    to = getattr(t, 'timeout', None)
    return (
        getattr(t, 'num', None),
        tuple(getattr(t, 'delays', None) or ()),
        _due(name, to),
        bool(getattr(t, 'is_waiting', False)),
    )


def deadline_order():
    """Pending deadlines as groups of names in firing order."""
    out = []
    last = None
    for when, name in sorted(_DEADLINES):
        if last is not None and abs(when - last) < 1e-6:
            out[-1] = out[-1] + (name,)
        else:
            out.append((name,))
        last = when
    return tuple(out)


def next_deadline(kinds=None):
    """Earliest pending deadline (after a world_canon call)."""
    c = [w for w, n in _DEADLINES
         if kinds is None or n.split(':')[0] in kinds]
    return min(c) if c else None


def prereq_canon(itask):
    out = []
    for p in itask.state.prerequisites:
        out.append(tuple(sorted(
            ((str(k.point), str(k.task), str(k.output)), str(v))
            for k, v in p.items())))
    return tuple(sorted(out))


def task_canon(itask):
    st = itask.state
    outs = st.outputs
    completed = tuple(sorted(
        m for m, done in getattr(outs, '_completed', {}).items() if done))
    return (
        itask.identity, st.status, st.is_held, st.is_queued, st.is_runahead,
        tuple(sorted(itask.flow_nums)), itask.flow_wait, itask.submit_num,
        itask.is_manual_submit, itask.waiting_on_job_prep, itask.transient,
        completed, prereq_canon(itask),
        tuple(sorted((k, bool(v)) for k, v in st.xtriggers.items())),
        tuple(sorted((k, bool(v)) for k, v in st.external_triggers.items())),
        tuple(sorted(
            (k, _timer(t, f'try:{itask.identity}:{k}'))
            for k, t in itask.try_timers.items())),
        _timer(itask.poll_timer, f'poll:{itask.identity}'),
        bool(getattr(st, 'kill_failed', False)),
        bool(itask.is_late),
        _due(f'timeout:{itask.identity}', itask.timeout),
        _due(f'expire:{itask.identity}',
             itask.expire_time if st.status == 'waiting' else None),
        tuple(sorted(
            (k, _due(f'clock:{itask.identity}:{k}', v))
            for k, v in (itask.clock_trigger_times or {}).items()))
        if st.status == 'waiting' else (),
    )


# behaviour-relevant columns per table (timestamps / free text excluded)
DB_COLS = {
    'task_pool': 'cycle, name, flow_nums, status, is_held',
    'task_states': 'name, cycle, flow_nums, submit_num, status, flow_wait, '
                   'is_manual_submit',
    'task_jobs': 'cycle, name, submit_num, flow_nums, is_manual_submit, '
                 'try_num, submit_status, run_status, run_signal',
    'task_outputs': 'cycle, name, flow_nums, outputs',
    'task_prerequisites': 'cycle, name, flow_nums, prereq_name, prereq_cycle,'
                          ' prereq_output, satisfied',
    'tasks_to_hold': 'name, cycle',
    'workflow_flows': 'flow_num',
    'xtriggers': 'signature',
    'absolute_outputs': 'cycle, name, output',
    'broadcast_states': 'point, namespace, key, value',
    'task_action_timers': 'cycle, name, ctx_key, num',
    'workflow_params': 'key, value',
}
PARAM_SKIP = {'uuid_str', 'cylc_version', 'n_restart', 'UTC_mode',
              'cycle_point_tz', 'cycle_point_format'}


def db_digest(path: str, tables=None) -> tuple:
    out = []
    try:
        conn = sqlite3.connect(f'file:{path}?mode=ro', uri=True, timeout=1)
    except sqlite3.Error:
        return ('nodb',)
    try:
        for tab, cols in sorted(DB_COLS.items()):
            if tables is not None and tab not in tables:
                continue
            try:
                rows = conn.execute(f'SELECT {cols} FROM {tab}').fetchall()
            except sqlite3.Error:
                rows = [('?',)]
            if tab == 'workflow_params':
                rows = [r for r in rows if r[0] not in PARAM_SKIP]
            out.append((tab, tuple(sorted(
                tuple('' if c is None else str(c) for c in r) for r in rows))))
    finally:
        conn.close()
    return tuple(out)


def world_canon(w, extra=None, with_db=True) -> tuple:
    """Everything the scheduler reads when deciding what to do next."""
    schd = w.schd
    del _DEADLINES[:]
    if not w.running:
        core = ('down', w.finished)
        pool_c = ()
    else:
        pool = schd.pool
        tasks = tuple(sorted(task_canon(t) for t in pool.get_tasks()))
        queues = ()
        tqm = getattr(pool, 'task_queue_mgr', None)
        if tqm is not None:
            queues = tuple(sorted(
                (name, tuple(t.identity for t in q.deque))
                for name, q in tqm.queues.items()))
        xm = schd.xtrigger_mgr
        pool_c = (
            tasks, queues,
            _s(pool.runahead_limit_point), _s(pool.stop_point),
            _s(pool.hold_point),
            tuple(sorted(map(str, pool.tasks_to_hold))),
            tuple(sorted(map(str, getattr(pool, 'abs_outputs_done', ())))),
            tuple(sorted(
                t.identity for t in getattr(pool, 'tasks_to_trigger_now', ())
            )),
            tuple(sorted(str(t) for t in getattr(
                pool, 'tasks_to_trigger_on_resume', ()))),
            _s(pool.max_future_offset),
            _s(getattr(pool, '_prev_runahead_base_point', None)),
            _s(getattr(pool, 'stop_task_id', None)),
            bool(getattr(pool, 'stop_task_finished', False)),
        )
        sm = schd.stop_mode
        bm = schd.broadcast_mgr
        core = (
            'up', schd.is_paused, None if sm is None else sm.name,
            schd.is_stalled, bool(schd.is_updated),
            bool(schd.reload_pending), bool(schd.is_reloaded),
            bool(getattr(schd, 'is_restart_timeout_wait', False)),
            _due('stopclock', getattr(schd, 'stop_clock_time', None)),
            schd.flow_mgr.counter, tuple(sorted(schd.flow_mgr.flows)),
            tuple(sorted(xm.sat_xtrig)), tuple(sorted(xm.active)),
            tuple(sorted(
                (k, _due(f'xtrig:{k}', v))
                for k, v in xm.t_next_call.items())),
            bool(xm.do_housekeeping),
            repr(sorted(
                (str(p), sorted((ns, repr(s)) for ns, s in d.items()))
                for p, d in bm.broadcasts.items())),
            schd.message_queue.qsize(), schd.command_queue.qsize(),
            len(schd.proc_pool.queuings),
            bool(schd.proc_pool.stopping), bool(schd.proc_pool.closed),
            tuple(sorted(
                (str(k), _timer(t, f'evt:{k}')) for k, t in
                schd.task_events_mgr._event_timers.items()))
            if hasattr(schd.task_events_mgr, '_event_timers') else (),
        )
    env = w.env.canon()
    db = ()
    if with_db:
        w.close_db()
        db = db_digest(schd.workflow_db_mgr.pri_path)
    if w.running:
        for proc in w.env.pending():
            _due(f'proc:{proc.kind}:{proc.jobs}',
                 getattr(proc.ctx, 'timeout', None))
    return (core, pool_c, env, db, w.n_restarts, extra, deadline_order())


def digest(c) -> str:
    return hashlib.sha1(repr(c).encode()).hexdigest()
