"""Glue: explore a catalogue of profiles in parallel and build a Result."""
from __future__ import annotations

import os
import time
from typing import Callable, Dict, List, Optional

from ..core import Ctx, HarnessError, Result, Violation, pmap
from .explore import Explorer, Stats, linear_replay, _jsonable

# module-level table filled before the pool forks: index -> profile factory
_FACTORIES: List[Callable] = []


RECYCLE = 400      # work items (= scheduler boots) per worker process


def _worker(wid: int, shared, n: int, conn):
    """Search worker: pulls work items (any profile) until all are done."""
    import time as _t
    from .. import core
    from .explore import SharedExplorer
    from . import harness as H
    scratch = core.scratch_root() / f'w{os.getpid()}'
    scratch.mkdir(parents=True, exist_ok=True)
    core.hermetic_env(scratch)
    explorers = {}
    n_items = 0
    recycled = False
    try:
        while True:
            if n_items >= RECYCLE:
                # the scheduler leaks ~150 kB per boot (C-level caches):
                # retire this process, the parent starts a fresh one
                recycled = True
                break
            item = shared.pop()
            if item == 'done':
                break
            if item == 'wait':
                H._ORIG_SLEEP(0.02)
                continue
            idx = item[0]
            n_items += 1
            try:
                ex = explorers.get(idx)
                if ex is None:
                    prof = _FACTORIES[idx]()
                    prof.wid = f'p{idx}'
                    ex = explorers[idx] = SharedExplorer(prof, idx, shared)
                    ex.st.workflows = 0
                ex.work(item)
            except Exception:
                import traceback
                shared.fail(f'profile {idx} item {item[1:]!r}:\n'
                            + traceback.format_exc())
            finally:
                shared.finish()
    finally:
        out = {}
        for idx, ex in explorers.items():
            for v in ex.st.violations:
                v['profile_index'] = idx
                v['spec_name'] = ex.p.spec.get('name', '')
            out[idx] = ex.st
        conn.send((recycled, out))
        conn.close()


def explore_all(ctx: Ctx, factories: List[Callable], *, max_states=3000,
                max_seconds=240, max_violations=3) -> Stats:
    """Explore every profile with a pool of search workers sharing one
    visited set per profile (work items: replay a prefix + one event)."""
    global _FACTORIES
    import multiprocessing as mp
    from multiprocessing.managers import BaseManager
    from .explore import Shared
    _FACTORIES = list(factories)
    n = len(_FACTORIES)

    class Mgr(BaseManager):
        pass
    Mgr.register('Shared', Shared)
    mpc = mp.get_context('fork')
    mgr = Mgr(ctx=mpc)
    mgr.start()
    total = Stats()
    try:
        shared = mgr.Shared(n, max_states, max_seconds, max_violations)
        shared.push([(i, [], None, None) for i in reversed(range(n))])
        from multiprocessing.connection import wait as _wait
        nw = max(1, min(ctx.workers, 16))
        live = {}

        def spawn(wid):
            pc, cc = mpc.Pipe(duplex=False)
            p = mpc.Process(target=_worker, args=(wid, shared, n, cc))
            p.start()
            cc.close()
            live[pc] = (p, wid)
        for wid in range(nw):
            spawn(wid)
        while live:
            for pc in _wait(list(live)):
                p, wid = live.pop(pc)
                try:
                    recycled, out = pc.recv()
                except EOFError:
                    recycled, out = False, None
                pc.close()
                p.join()
                if out is None or p.exitcode != 0:
                    total.error = total.error or (
                        f'search worker died (exit {p.exitcode})')
                    continue
                for idx, st in out.items():
                    total.merge(st)
                if recycled and not total.error:
                    spawn(wid)
        sizes, capped, failed = shared.summary()
        total.workflows = n
        total.states = sum(sizes)
        for i, sz in enumerate(sizes):
            try:
                nm = _FACTORIES[i]().spec.get('name', str(i))
            except Exception:
                nm = str(i)
            total.counters[f'spec:{nm}'] = sz
        if any(capped):
            total.capped = True
            total.cap_reason = '; '.join(
                f'profile {i}: {c}' for i, c in enumerate(capped) if c)
        if failed:
            total.error = failed
    finally:
        mgr.shutdown()
    return total


def result_from(ctx: Ctx, st: Stats, *, prop: str, bounds: dict,
                assumptions: List[str], min_states: int = 10,
                sig_filter: Optional[Callable[[dict], bool]] = None,
                extra_cov: Optional[dict] = None) -> Result:
    if st.error:
        raise HarnessError(st.error)
    if st.states < min_states and not st.violations:
        raise HarnessError(
            f'vacuous exploration: only {st.states} states')
    vios = []
    for v in st.violations:
        if sig_filter is not None and not sig_filter(v):
            continue
        payload = {
            'prop': prop,
            'spec_name': v.get('spec_name'),
            'profile_index': v.get('profile_index'),
            'events': v.get('events'),
            'terminal': v.get('terminal'),
            'flow': v.get('flow'),
            'signature': v['signature'],
            'tier': ctx.tier,
        }
        vios.append(Violation(
            v['signature'],
            f"[{v.get('spec_name')}] {v['what']} "
            f"(after {len(v.get('events') or [])} events)", payload))
    cov = {
        'states': st.states,
        'transitions': st.transitions,
        'traces_validated_against_impl': st.replays,
        'replayed_steps': st.replay_steps,
        'workflows_explored': st.workflows,
        'terminal_outcomes': st.terminals,
        'distinct_terminal_kinds': len(st.terminals),
        'max_depth': st.max_depth,
        'exhaustive': not st.capped,
        'cap': st.cap_reason or None,
        'samples': st.samples[:4] or [{'note': 'no terminal reached'}],
        'states_per_workflow': {
            k[5:]: v for k, v in st.counters.items()
            if k.startswith('spec:')},
        'bounds': bounds,
        'explanation': (
            'every transition is an execution of the real Scheduler main '
            'loop; traces_validated = event prefixes re-executed from a '
            'fresh boot whose final canonical state hash had to equal the '
            'recorded one'),
    }
    if extra_cov:
        cov.update(extra_cov)
    return Result(cov, vios, assumptions, level='model_checking')


def replay_violation(payload: dict, factory_for: Callable[[dict], Callable]):
    """Linear re-execution of a recorded violation (vf replay)."""
    prof = factory_for(payload)()
    viols = linear_replay(prof, payload.get('events') or [],
                          payload.get('terminal'))
    return [
        Violation(v['signature'], v['what'], payload)
        for v in viols if v['signature'] == payload['signature']
    ] or [Violation(v['signature'], v['what'], payload) for v in viols]
