"""Glue: explore a catalogue of profiles in parallel and build a Result."""
from __future__ import annotations

import os
import time
from typing import Callable, Dict, List, Optional

from ..core import Ctx, HarnessError, Result, Violation, pmap
from .explore import Explorer, Stats, linear_replay, _jsonable

# module-level table filled before the pool forks: index -> profile factory
_FACTORIES: List[Callable] = []
_LIMITS: Dict[str, int] = {}


def _work(i: int):
    from .. import core
    # each worker gets its own scratch HOME (run dirs must not collide)
    scratch = core.scratch_root() / f'w{os.getpid()}'
    scratch.mkdir(parents=True, exist_ok=True)
    core.hermetic_env(scratch)
    prof = _FACTORIES[i]()
    ex = Explorer(prof, max_states=_LIMITS['max_states'],
                  max_seconds=_LIMITS['max_seconds'],
                  max_violations=_LIMITS.get('max_violations', 3))
    st = ex.run()
    for v in st.violations:
        v['profile_index'] = i
        v['spec_name'] = prof.spec.get('name', '')
    st.counters['spec:' + prof.spec.get('name', str(i))] = st.states
    return st


def explore_all(ctx: Ctx, factories: List[Callable], *, max_states=3000,
                max_seconds=240, budget_seconds: Optional[float] = None
                ) -> Stats:
    """Explore every profile (one per worker at a time)."""
    global _FACTORIES, _LIMITS
    _FACTORIES = list(factories)
    _LIMITS = {'max_states': max_states, 'max_seconds': max_seconds}
    total = Stats()
    results = pmap(_work, list(range(len(factories))), ctx.workers)
    for st in results:
        total.merge(st)
    return total


def result_from(ctx: Ctx, st: Stats, *, prop: str, bounds: dict,
                assumptions: List[str], min_states: int = 10,
                sig_filter: Optional[Callable[[dict], bool]] = None,
                extra_cov: Optional[dict] = None) -> Result:
    if st.error:
        raise HarnessError(st.error)
    if st.states < min_states:
        raise HarnessError(
            f'vacuous exploration: only {st.states} states')
    vios = []
    for v in st.violations:
        if sig_filter is not None and not sig_filter(v):
            continue
        payload = {
            'prop': prop,
            'spec_name': v.get('spec_name'),
            'profile_index': v.get('profile_index'),
            'events': v.get('events'),
            'terminal': v.get('terminal'),
            'flow': v.get('flow'),
            'signature': v['signature'],
            'tier': ctx.tier,
        }
        vios.append(Violation(
            v['signature'],
            f"[{v.get('spec_name')}] {v['what']} "
            f"(after {len(v.get('events') or [])} events)", payload))
    cov = {
        'states': st.states,
        'transitions': st.transitions,
        'traces_validated_against_impl': st.replays,
        'replayed_steps': st.replay_steps,
        'workflows_explored': st.workflows,
        'terminal_outcomes': st.terminals,
        'distinct_terminal_kinds': len(st.terminals),
        'max_depth': st.max_depth,
        'exhaustive': not st.capped,
        'cap': st.cap_reason or None,
        'samples': st.samples[:4] or [{'note': 'no terminal reached'}],
        'states_per_workflow': {
            k[5:]: v for k, v in st.counters.items()
            if k.startswith('spec:')},
        'bounds': bounds,
        'explanation': (
            'every transition is an execution of the real Scheduler main '
            'loop; traces_validated = event prefixes re-executed from a '
            'fresh boot whose final canonical state hash had to equal the '
            'recorded one'),
    }
    if extra_cov:
        cov.update(extra_cov)
    return Result(cov, vios, assumptions, level='model_checking')


def replay_violation(payload: dict, factory_for: Callable[[dict], Callable]):
    """Linear re-execution of a recorded violation (vf replay)."""
    prof = factory_for(payload)()
    viols = linear_replay(prof, payload.get('events') or [],
                          payload.get('terminal'))
    return [
        Violation(v['signature'], v['what'], payload)
        for v in viols if v['signature'] == payload['signature']
    ] or [Violation(v['signature'], v['what'], payload) for v in viols]
