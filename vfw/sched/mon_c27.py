"""C27 Reload preserves task state: seams, definition variants, profile,
monitor.

The operator event is "swap in a variant flow.cylc in the run directory, then
queue `reload_workflow`". The whole reload runs inside ONE main-loop iteration
(`commands.reload_workflow` blocks in `process_command_queue`): it pauses the
workflow, spins (`sleep(1)`) until preparing tasks have submitted, loads the
new definition, `TaskPool.reload()` swaps every proxy for a successor, and the
workflow is resumed. Observation points:

    B  entry of TaskPool.reload            (pool before the swap)
    C  return of the command queue pass    (end of the reload command)
    D  end of the main-loop iteration      (queued flag only: the new queue
                                            manager is refilled by the main
                                            loop after the command)

The reference is computed from the graph *term* of the new definition
(`catalogue.RefGraph`) and from the environment's record of job messages,
never from cylc's own structures.
"""
from __future__ import annotations

import json
import os
from typing import Dict, List, Optional, Set, Tuple

from .catalogue import (
    A, E, N, RefGraph, atoms, optional_outputs, render_graph, STD)
from .harness import CLOCK
from .monitors import msg_to_output
from .profile import Monitor, Profile, render_flow
from .world import World, _CUR


class ReloadSpin(BaseException):
    """The reload's wait-for-preparing-tasks loop does not terminate."""


# ---------------------------------------------------------------------------
# counters that survive the search-worker processes (vacuity guards)

class Counters:
    """Per-process counters flushed to <scratch>/<tag>-<pid>.json."""

    def __init__(self, tag: str):
        self.tag = tag
        self.c: Dict[str, int] = {}
        self.dirty = False
        self.pid = None

    def bump(self, name: str, n: int = 1) -> None:
        if self.pid != os.getpid():
            self.pid = os.getpid()
            self.c = {}
        self.c[name] = self.c.get(name, 0) + n
        self.dirty = True

    def flush(self) -> None:
        if not self.dirty or self.pid != os.getpid():
            return
        from ..core import scratch_root
        path = scratch_root() / f'{self.tag}-{os.getpid()}.json'
        tmp = path.with_suffix('.tmp')
        tmp.write_text(json.dumps(self.c))
        os.replace(tmp, path)
        self.dirty = False

    def collect(self, scratch) -> Dict[str, int]:
        total: Dict[str, int] = {}
        for p in sorted(scratch.glob(f'{self.tag}-*.json')):
            try:
                for k, v in json.loads(p.read_text()).items():
                    total[k] = total.get(k, 0) + int(v)
            finally:
                p.unlink()
        return total


COUNTS = Counters('c27-counters')


# ---------------------------------------------------------------------------
# seams

_SEAM = False


def install_reload_seam() -> None:
    """Idempotent.

    * `commands.sleep`: the reload spins on `sleep(1)` inside one main-loop
      iteration until every preparing task has submitted. The fake process
      pool never completes a command by itself, so the environment's only
      possible move - the pending `jobs-submit` commands complete - is made
      here (successful submission).
    * `TaskPool.reload`: bracketed with `reload_begin` / `reload_end` events.
    """
    global _SEAM
    if _SEAM:
        return
    _SEAM = True
    import cylc.flow.commands as C
    from cylc.flow.task_pool import TaskPool

    def sleep(secs=0):
        CLOCK.sleep(secs)
        w = _CUR[0]
        if w is None or w.schd is None or not w.schd.reload_pending:
            return
        w.reload_spins = getattr(w, 'reload_spins', 0) + 1
        if w.reload_spins > 40:
            raise ReloadSpin('reload wait loop does not terminate')
        for _ in range(len(w.env.pending())):
            for i, proc in enumerate(w.env.pending()):
                if proc.kind == 'jobs-submit':
                    w.finish_cmd(i, 'ok')
                    COUNTS.bump('submit completed during reload wait')
                    break
            else:
                break
    C.sleep = sleep

    o_reload = TaskPool.reload

    def reload(self, config):
        w = _CUR[0]
        if w is not None:
            w.emit('reload_begin', pool=self)
        ret = o_reload(self, config)
        if w is not None:
            w.emit('reload_end', pool=self)
        return ret
    TaskPool.reload = reload


# ---------------------------------------------------------------------------
# definition variants (computed on the graph term)

def term_tasks(sections) -> List[str]:
    out: Set[str] = set()
    for _rec, items in sections:
        for it in items:
            if it[0] == 'node':
                out.add(it[1])
            else:
                out.add(it[2])
                out.update(a[1] for a in atoms(it[1]))
    return sorted(out)


def _drop_task_expr(e, task):
    """Expression without the atoms of `task` (None if nothing is left)."""
    if e[0] == 'atom':
        return None if e[1] == task else e
    op, l, r = e
    l2, r2 = _drop_task_expr(l, task), _drop_task_expr(r, task)
    if l2 is None:
        return r2
    if r2 is None:
        return l2
    return (op, l2, r2)


def remove_task(sections, task):
    out = []
    for rec, items in sections:
        new = []
        for it in items:
            if it[0] == 'node':
                if it[1] != task:
                    new.append(it)
                continue
            _, lhs, rhs, opt = it
            if rhs == task:
                # the upstream tasks stay in the graph
                for a in atoms(lhs):
                    if a[1] != task and a[2] == 0:
                        new.append(N(a[1]))
                continue
            lhs2 = _drop_task_expr(lhs, task)
            if lhs2 is None:
                new.append(N(rhs))
            else:
                new.append(('edge', lhs2, rhs, opt))
        out.append((rec, _dedupe(new)))
    return out


def _dedupe(items):
    """Drop duplicates, and plain nodes of tasks that an edge mentions (a
    bare node would make the task's success required)."""
    in_edges = set()
    for it in items:
        if it[0] == 'edge':
            in_edges.add(it[2])
            in_edges.update(a[1] for a in atoms(it[1]) if a[2] == 0)
    seen = []
    for it in items:
        if it[0] == 'node' and it[1] in in_edges:
            continue
        if it not in seen:
            seen.append(it)
    return seen


def remove_edge(sections, index=0):
    """Replace the index-th edge by plain nodes (tasks stay defined)."""
    out = []
    k = -1
    for rec, items in sections:
        new = []
        for it in items:
            if it[0] == 'edge':
                k += 1
                if k == index:
                    for a in atoms(it[1]):
                        if a[2] == 0:
                            new.append(N(a[1]))
                    new.append(N(it[2]))
                    continue
            new.append(it)
        out.append((rec, _dedupe(new)))
    return out


def _zero_reach(sections) -> Dict[str, Set[str]]:
    """task -> tasks reachable through same-cycle edges."""
    adj: Dict[str, Set[str]] = {}
    for _rec, items in sections:
        for it in items:
            if it[0] == 'edge':
                for a in atoms(it[1]):
                    if a[2] == 0:
                        adj.setdefault(a[1], set()).add(it[2])
    reach: Dict[str, Set[str]] = {}
    for t in term_tasks(sections):
        seen: Set[str] = set()
        todo = [t]
        while todo:
            x = todo.pop()
            for y in adj.get(x, ()):
                if y not in seen:
                    seen.add(y)
                    todo.append(y)
        reach[t] = seen
    return reach


def edge_candidates(sections) -> List[Tuple[str, int, str]]:
    """(upstream, offset, downstream) over existing tasks that add a new
    prerequisite atom without creating a same-cycle loop; same-cycle
    candidates first."""
    tasks = term_tasks(sections)
    have: Set[Tuple[str, int, str, str]] = set()
    for _rec, items in sections:
        for it in items:
            if it[0] == 'edge':
                for a in atoms(it[1]):
                    have.add((a[1], a[2], a[3], it[2]))
    reach = _zero_reach(sections)
    out = []
    for off in (0, -1):
        for v in tasks:
            for u in tasks:
                if (u, off, 'succeeded', v) in have:
                    continue
                if off == 0 and (u == v or u in reach.get(v, ())):
                    continue
                out.append((u, off, v))
    return out


def _succ(sections, task, off=0):
    """`task:succeeded` atom, optional iff the term already says so."""
    opt = 'succeeded' in optional_outputs(sections).get(task, ())
    return A(task, off, 'succeeded', opt)


def add_edge(sections, cand):
    u, off, v = cand
    rec, items = sections[-1]
    return list(sections[:-1]) + [
        (rec, list(items) + [E(_succ(sections, u, off), v)])]


def add_task(sections):
    """A new task `n` downstream of the first task of the graph."""
    rec, items = sections[-1]
    first = term_tasks(sections)[0]
    return list(sections[:-1]) + [
        (rec, list(items) + [E(_succ(sections, first), 'n')])]


def definitions(spec: dict, tier: str) -> Dict[str, list]:
    """variant name -> sections. Every variant is an *absolute* definition
    (a second reload goes from one variant to another)."""
    secs = spec['sections']
    tasks = term_tasks(secs)
    out: Dict[str, list] = {'same': secs, '+task': add_task(secs)}
    cands = edge_candidates(secs)
    want = spec.get('add_edges')
    if want is not None:
        cands = [tuple(c) for c in want]
    else:
        zero = [c for c in cands if c[1] == 0][:1]
        prev = [c for c in cands if c[1] == -1][:1]
        cands = zero + (prev if (tier == 'thorough' or not zero) else [])
    for u, off, v in cands:
        out[f"+edge:{u}{'[-P1]' if off else ''}=>{v}"] = add_edge(
            secs, (u, off, v))
    drop = spec.get('drop_tasks')
    if drop is None:
        drop = [tasks[0], tasks[-1]] if tier == 'thorough' else [tasks[-1]]
        if len(tasks) == 1:
            drop = []       # (an empty graph is not a valid definition)
    for t in _dedupe(list(drop)):
        out[f'-task:{t}'] = remove_task(secs, t)
    n_edges = sum(1 for _r, its in secs for it in its if it[0] == 'edge')
    for i in range(min(n_edges, 2 if tier == 'thorough' else 1)):
        out[f'-edge:{i}'] = remove_edge(secs, i)
    return out


def variant_flow(spec: dict, sections) -> str:
    new = dict(spec)
    new.pop('flow_text', None)
    new['sections'] = sections
    new['graph'] = render_graph(sections)
    return render_flow(new)


# ---------------------------------------------------------------------------
# reference helpers

def ref_atoms(ref: RefGraph, name: str, p: int, spec: dict
              ) -> Dict[Tuple[str, str, str], bool]:
    """Prerequisite atoms (point, task, message) of name.p per the term ->
    whether the atom refers to a point before the initial cycle point
    (documented as satisfied from the outset)."""
    out: Dict[Tuple[str, str, str], bool] = {}
    for e in ref.exprs(name, p):
        for a in atoms(e):
            t, q, o = ref.atom_key(a, p)
            for oo in (('succeeded', 'failed') if o == 'finished' else (o,)):
                out[(str(q), t, _message_of(spec, t, oo))] = \
                    ref.pre_initial(a, p)
    return out


def env_recorded(w: World) -> Set[Tuple[str, str, str]]:
    """(point, task, message) delivered to the scheduler by a job (plus
    `submitted` / `submit-failed`, reported by the submit command)."""
    done: Set[Tuple[str, str, str]] = set()
    for (p, n, _num), job in w.env.jobs.items():
        if job.state in ('submitted', 'running', 'succeeded', 'failed'):
            done.add((p, n, 'submitted'))
        if job.state == 'submit-failed':
            done.add((p, n, 'submit-failed'))
        for m in job.sent:
            done.add((p, n, 'failed' if m == 'failed/ERR' else m))
    return done


def snapshot(pool) -> Dict[str, dict]:
    snap = {}
    for it in pool.get_tasks():
        st = it.state
        prereqs = {}
        for pre in st.prerequisites:
            for k, v in pre.items():
                prereqs[(str(k.point), str(k.task), str(k.output))] = bool(v)
        snap[it.identity] = {
            'name': it.tdef.name, 'point': str(it.point),
            'status': st.status,
            'flows': tuple(sorted(it.flow_nums)),
            'submit_num': it.submit_num,
            'held': bool(st.is_held), 'queued': bool(st.is_queued),
            'runahead': bool(st.is_runahead),
            'outputs': tuple(sorted(
                m for m, d in st.outputs._completed.items() if d)),
            'prereqs': prereqs,
            'obj': id(it),
        }
    return snap


NOT_STARTED = ('waiting',)


# ---------------------------------------------------------------------------
class ReloadPreserves(Monitor):
    """C27 oracle (see module docstring)."""
    name = 'reload-preserves'

    def __init__(self):
        self.bad: List[dict] = []
        self.B: Optional[Dict[str, dict]] = None
        self.ended = False
        self.judged: Optional[dict] = None     # data kept for the D check

    # monitor state lives only inside one transition: nothing for key()

    def on_event(self, kind: str, data: dict) -> None:
        if kind == 'reload_begin':
            self.B = snapshot(data['pool'])
            self.ended = False
        elif kind == 'reload_end':
            self.ended = True
        elif kind == 'cmd_processed' and self.B is not None:
            self._judge(self.w)

    # ------------------------------------------------------------------
    def _judge(self, w: World) -> None:
        B, self.B = self.B, None
        schd = w.schd
        v = self.bad
        target = w.reload_target            # (variant name, sections)
        vname, sections = target
        COUNTS.bump('reloads judged')
        COUNTS.bump(f'reload variant {vname.split(":")[0]}')
        if not self.ended or schd.reload_pending is not False:
            v.append(self.viol(
                'reload-did-not-complete',
                f'reload to definition {vname!r} started but did not finish '
                f'(reload_pending={schd.reload_pending!r})'))
            return
        spec = w.spec
        ref = RefGraph(sections, spec['icp'], spec['fcp'])
        C = snapshot(schd.pool)
        recorded = env_recorded(w)
        dropped_any = False
        for ident, b in sorted(B.items()):
            c = C.get(ident)
            name, p = b['name'], int(b['point'])
            defined = name in ref.points
            if not defined:
                COUNTS.bump('orphans')
                started = b['status'] not in NOT_STARTED
                if c is None:
                    dropped_any = True
                    COUNTS.bump('orphans dropped')
                    if started:
                        v.append(self.viol(
                            'started-orphan-dropped:' + (
                                'held' if b['held'] else
                                'queued' if b['queued'] else b['status']),
                            f'{ident} ({b["status"]}, held={b["held"]}, '
                            f'queued={b["queued"]}) had started; its '
                            f'definition was removed by the reload to '
                            f'{vname!r} and the task was dropped from the '
                            'pool'))
                    continue
                COUNTS.bump('orphans kept')
                if not started:
                    v.append(self.viol(
                        'unstarted-orphan-kept',
                        f'{ident} ({b["status"]}) had not started and its '
                        f'definition was removed by the reload to {vname!r},'
                        ' but it is still in the pool'))
            elif c is None:
                v.append(self.viol(
                    'task-lost-in-reload',
                    f'{ident} ({b["status"]}) is still defined after the '
                    f'reload to {vname!r} but is no longer in the pool'))
                continue
            COUNTS.bump('proxies compared')
            for fld in ('status', 'flows', 'submit_num', 'held', 'outputs'):
                if b[fld] != c[fld]:
                    v.append(self.viol(
                        f'{fld}-changed-by-reload',
                        f'{ident}: {fld} was {b[fld]!r} before and is '
                        f'{c[fld]!r} after the reload to {vname!r}'))
            if b['held']:
                COUNTS.bump('held proxies compared')
            if b['outputs']:
                COUNTS.bump('proxies with outputs compared')
            if not defined:
                continue
            # prerequisites -------------------------------------------------
            want = ref_atoms(ref, name, p, spec) if ref.valid(name, p) else {}
            if ref.valid(name, p):
                if set(c['prereqs']) != set(want):
                    v.append(self.viol(
                        'prerequisites-not-those-of-new-definition',
                        f'{ident}: after the reload to {vname!r} its '
                        f'prerequisite atoms are {sorted(c["prereqs"])} but '
                        f'the new definition gives {sorted(want)}'))
            for atom, sat in sorted(c['prereqs'].items()):
                if atom in b['prereqs']:
                    COUNTS.bump('kept prerequisite atoms')
                    if b['prereqs'][atom]:
                        COUNTS.bump('kept satisfied prerequisite atoms')
                    if sat != b['prereqs'][atom]:
                        v.append(self.viol(
                            'kept-prerequisite-satisfaction-changed:'
                            f"{'lost' if b['prereqs'][atom] else 'gained'}",
                            f'{ident}: prerequisite {atom} exists before '
                            f'and after the reload to {vname!r}; satisfied '
                            f'{b["prereqs"][atom]} -> {sat}'))
                    continue
                q, t, o = atom
                if want.get(atom) or int(q) < spec['icp']:
                    # a new reference to before the initial point: no output
                    # can ever be recorded for it; the statement does not
                    # say which way it goes
                    COUNTS.bump('new pre-initial atoms (not judged)')
                    continue
                rec = (q, t, o) in recorded
                up = B.get(f'{q}/{t}')
                if up is not None:
                    if (o in up['outputs']) != rec:
                        COUNTS.bump('new atoms not judged (records differ)')
                        continue
                COUNTS.bump('new prerequisite atoms')
                COUNTS.bump('new prerequisite atoms '
                            + ('recorded' if rec else 'not recorded'))
                if sat and not rec:
                    v.append(self.viol(
                        'new-prerequisite-satisfied-without-output',
                        f'{ident}: new prerequisite {atom} (reload to '
                        f'{vname!r}) is satisfied but that output was never '
                        'recorded'))
                elif rec and not sat:
                    v.append(self.viol(
                        'new-prerequisite-unsatisfied-despite-recorded-'
                        'output',
                        f'{ident}: new prerequisite {atom} (reload to '
                        f'{vname!r}) is unsatisfied although the output '
                        'is recorded as completed'))
        # runahead flag: the reload recomputes the limit; only judged when
        # the set of pooled tasks (which determines the limit) is unchanged
        if not dropped_any and set(B) == set(C):
            for ident, b in sorted(B.items()):
                c = C[ident]
                if b['runahead']:
                    COUNTS.bump('runahead proxies compared')
                if b['runahead'] != c['runahead']:
                    v.append(self.viol(
                        'runahead-changed-by-reload',
                        f'{ident}: is_runahead was {b["runahead"]} before '
                        f'and is {c["runahead"]} after the reload to '
                        f'{vname!r} (same tasks in the pool)'))
        self.judged = {'B': B, 'C': C, 'vname': vname}

    # ------------------------------------------------------------------
    def after(self, w: World, ev: tuple) -> List[dict]:
        out, self.bad = self.bad, []
        if isinstance(w.error, ReloadSpin):
            raise RuntimeError(f'harness: {w.error}')
        if ev[0] == 'op' and ev[1] == 'reload':
            if self.judged is None and not out and w.running:
                raise RuntimeError(
                    f'harness: reload event {ev!r} did not reach '
                    'TaskPool.reload (definition rejected?)')
        j, self.judged = self.judged, None
        if j is not None and w.running:
            # queued flag, judged at the end of the iteration
            pool = {t.identity: t for t in w.schd.pool.get_tasks()}
            for ident, b in sorted(j['B'].items()):
                if not b['queued']:
                    continue
                COUNTS.bump('queued proxies compared')
                c = j['C'].get(ident)
                if c is None:
                    continue
                it = pool.get(ident)
                if it is None:
                    continue
                ready = all(c['prereqs'].values()) and not c['held']
                if not ready:
                    COUNTS.bump('queued proxies no longer ready')
                    continue
                if it.state.status == 'waiting' and not it.state.is_queued:
                    out.append(self.viol(
                        'queued-flag-lost-in-reload',
                        f'{ident} was waiting and queued before the reload '
                        f'to {j["vname"]!r}; at the end of the iteration it '
                        'is waiting, ready and not queued'))
        COUNTS.flush()
        return out


def _message_of(spec: dict, task: str, output: str) -> str:
    return spec.get('tasks', {}).get(task, {}).get('outputs', {}).get(
        output, output)


# ---------------------------------------------------------------------------
class ReloadProfile(Profile):
    """Default alphabet + `reload to definition V` (budget) + optional
    helper commands (hold/release/resume; separate budget)."""

    def __init__(self, spec, *, tier='quick', reload_budget=1,
                 helpers=None, helper_budget=0, **kw):
        super().__init__(spec, **kw)
        install_reload_seam()
        self.defs = definitions(spec, tier)
        self.reload_budget = reload_budget
        self.helpers = list(helpers or [])     # [(name, kwargs)]
        self.helper_budget = helper_budget

    def helper_allowed(self, w, i) -> bool:
        """spec['helper_when'] = 'live-member' / 'no-live-member': offer a
        group trigger only while (no) task it names has a live job (keeps a
        recorded finding inside an entry of its own)."""
        when = self.spec.get('helper_when')
        if not when or not w.running:
            return True
        name, kw = self.helpers[i]
        ids = set(kw.get('tasks', ()))
        live = any(
            it.identity in ids
            and it.state('preparing', 'submitted', 'running')
            for it in w.schd.pool.get_tasks())
        return live if when == 'live-member' else not live

    def make_world(self):
        install_reload_seam()
        w = super().make_world()
        w.reload_log = []
        w.helper_log = []
        w.reload_target = None
        w.reload_spins = 0
        return w

    def extra_key(self, w):
        return (tuple(w.reload_log), tuple(w.helper_log))

    def operator_events(self, w):
        out = []
        if len(w.helper_log) < self.helper_budget and not w.reload_log:
            for i, (name, _kw) in enumerate(self.helpers):
                if i not in w.helper_log and self.helper_allowed(w, i):
                    out.append(('op', 'helper', i))
        if len(w.reload_log) < self.reload_budget:
            for vname in self.defs:
                out.append(('op', 'reload', vname))
        return out

    def apply_op(self, w, ev):
        _, what, arg = ev
        if what == 'helper':
            name, kw = self.helpers[arg]
            w.helper_log.append(arg)
            w.command(name, **kw)
            return
        sections = self.defs[arg]
        (w.run_dir / 'flow.cylc').write_text(variant_flow(self.spec, sections))
        w.reload_log.append(arg)
        w.reload_target = (arg, sections)
        w.reload_spins = 0
        w.command('reload_workflow')
