"""Common machinery: check context, results, evidence, findings, scratch.

A property module (vfw/props/cNN.py) exposes:

    LEVEL = 'exploration' | 'model_checking' | 'fault_enumeration'
    def run(ctx) -> Result
    def replay(payload) -> list[Violation]     (optional; linear re-execution)

The CLI (vfw/cli.py) turns a Result into evidence, replay files, KNOWN-FINDING
and VIOLATION lines, and the exit code.
"""
from __future__ import annotations

import atexit
import hashlib
import json
import os
import shutil
import sys
import time
import traceback
from dataclasses import dataclass, field
from multiprocessing import get_context
from pathlib import Path
from typing import Any, Callable, Dict, Iterable, List, Optional

VERIF = Path(__file__).resolve().parent.parent
EVIDENCE_DIR = VERIF / 'evidence'
REPLAY_DIR = VERIF / 'replays'
if os.environ.get('VF_REPO'):
    # development aid: a run against a modified copy of the repository
    # (seeded change) must not overwrite the evidence of the real tree
    EVIDENCE_DIR = Path('/dev/shm/vf-mutant/evidence')
    REPLAY_DIR = Path('/dev/shm/vf-mutant/replays')
FINDINGS_FILE = VERIF / 'known_findings.json'

EXIT_OK = 0
EXIT_VIOLATION = 1
EXIT_HARNESS = 2


class HarnessError(Exception):
    """The harness itself is broken (not a property verdict)."""


@dataclass
class Violation:
    """One property violation.

    signature: a *specific* failing input/history class (used to match the
    known-findings file); what: one-line human description; payload:
    everything `replay` needs to re-execute it linearly.
    """
    signature: str
    what: str
    payload: Dict[str, Any] = field(default_factory=dict)

    def to_json(self):
        return {
            'signature': self.signature,
            'what': self.what,
            'payload': self.payload,
        }


@dataclass
class Result:
    coverage: Dict[str, Any]
    violations: List[Violation] = field(default_factory=list)
    assumptions: List[str] = field(default_factory=list)
    level: Optional[str] = None


@dataclass
class Ctx:
    prop: str
    tier: str
    seed: int
    workers: int
    scratch: Path

    @property
    def quick(self) -> bool:
        return self.tier == 'quick'

    def pick(self, quick, thorough):
        return quick if self.tier == 'quick' else thorough


# --------------------------------------------------------------------------
# scratch space

_SCRATCH: Optional[Path] = None


def scratch_root() -> Path:
    """Per-process-tree scratch directory on tmpfs, removed at exit."""
    global _SCRATCH
    if _SCRATCH is None:
        base = Path('/dev/shm')
        if not (base.is_dir() and os.access(base, os.W_OK)):
            base = Path(os.environ.get('TMPDIR', '/tmp'))
        _SCRATCH = base / f'vf-{os.getpid()}'
        _SCRATCH.mkdir(parents=True, exist_ok=True)
        owner = os.getpid()

        def _cleanup():
            if os.getpid() == owner:
                shutil.rmtree(_SCRATCH, ignore_errors=True)
        atexit.register(_cleanup)
    return _SCRATCH


def hermetic_env(scratch: Path) -> None:
    """No user/site global.cylc, HOME inside scratch."""
    home = scratch / 'home'
    conf = scratch / 'conf'
    home.mkdir(parents=True, exist_ok=True)
    conf.mkdir(parents=True, exist_ok=True)
    os.environ['HOME'] = str(home)
    os.environ['CYLC_CONF_PATH'] = str(conf)
    os.environ.pop('CYLC_SITE_CONF_PATH', None)
    os.environ['TZ'] = 'UTC'
    import pwd
    os.environ['USER'] = pwd.getpwuid(os.getuid()).pw_name
    time.tzset()


# --------------------------------------------------------------------------
# parallel map over a catalogue (deterministic result order)

def _call(args):
    fn, item = args
    try:
        return ('ok', fn(item))
    except BaseException:  # noqa
        return ('err', traceback.format_exc())


def pmap(fn: Callable, items: Iterable, workers: int, chunksize: int = 1):
    """Map fn over items on a process pool; results in input order.

    A worker exception is a harness error (never a silent skip).
    """
    items = list(items)
    if workers <= 1 or len(items) <= 1:
        out = []
        for it in items:
            tag, val = _call((fn, it))
            if tag == 'err':
                raise HarnessError(val)
            out.append(val)
        return out
    ctx = get_context('fork')
    with ctx.Pool(min(workers, len(items))) as pool:
        res = pool.map(_call, [(fn, it) for it in items], chunksize)
    out = []
    for tag, val in res:
        if tag == 'err':
            raise HarnessError(val)
        out.append(val)
    return out


def chunks(seq, n):
    """Split seq into n nearly equal interleaved slices (load balance)."""
    seq = list(seq)
    return [seq[i::n] for i in range(n) if seq[i::n]]


# --------------------------------------------------------------------------
# known findings

def load_findings() -> List[dict]:
    if not FINDINGS_FILE.exists():
        return []
    data = json.loads(FINDINGS_FILE.read_text())
    return data.get('findings', [])


def finding_for(prop: str, signature: str, findings: List[dict]):
    for f in findings:
        if f.get('status') != 'finding':
            continue   # "fixed" entries suppress nothing
        if f.get('property') == prop and f.get('signature') == signature:
            return f
    return None


# --------------------------------------------------------------------------
# evidence

LEVELS = {
    'exploration', 'fault_enumeration', 'model_checking', 'proof',
    'translation_validation', 'other',
}


def validate_evidence(ev: dict) -> None:
    """Hand validation mirroring /root/.vp/EVIDENCE.schema.json."""
    for k in ('property_id', 'tier', 'seed', 'level', 'coverage', 'wall_s'):
        if k not in ev:
            raise HarnessError(f'evidence missing {k}')
    if ev['tier'] not in ('quick', 'thorough'):
        raise HarnessError('bad tier')
    if ev['level'] not in LEVELS:
        raise HarnessError('bad level')
    if not isinstance(ev['seed'], int):
        raise HarnessError('bad seed')
    cov = ev['coverage']

    def generic(required_samples=True):
        if not (isinstance(cov.get('evaluations'), int)
                and cov['evaluations'] >= 1):
            raise HarnessError('coverage.evaluations < 1')
        if not (isinstance(cov.get('distinct_nontrivial'), int)
                and cov['distinct_nontrivial'] >= 2):
            raise HarnessError('coverage.distinct_nontrivial < 2')
        if required_samples:
            if not isinstance(cov.get('rule'), str):
                raise HarnessError('coverage.rule missing')
            if not (isinstance(cov.get('samples'), list) and cov['samples']):
                raise HarnessError('coverage.samples empty')

    if ev['level'] in ('exploration', 'fault_enumeration'):
        generic()
    elif ev['level'] == 'model_checking':
        keys = ('states', 'transitions', 'traces_validated_against_impl',
                'samples')
        if all(k in cov for k in keys):
            if not (isinstance(cov['states'], int) and cov['states'] >= 1):
                raise HarnessError('coverage.states < 1')
            if not (isinstance(cov['transitions'], int)
                    and cov['transitions'] >= 1):
                raise HarnessError('coverage.transitions < 1')
            if not (isinstance(cov['traces_validated_against_impl'], int)
                    and cov['traces_validated_against_impl'] >= 0):
                raise HarnessError('coverage.traces_validated bad')
            if not (isinstance(cov['samples'], list) and cov['samples']):
                raise HarnessError('coverage.samples empty')
        else:
            generic(required_samples=False)
    json.dumps(ev)  # must be serialisable


def write_evidence(ev: dict) -> Path:
    validate_evidence(ev)
    EVIDENCE_DIR.mkdir(parents=True, exist_ok=True)
    path = EVIDENCE_DIR / f"{ev['property_id']}.json"
    tmp = path.with_suffix('.json.tmp')
    tmp.write_text(json.dumps(ev, indent=1, sort_keys=True, default=str))
    os.replace(tmp, path)
    return path


def write_replay(prop: str, v: Violation) -> Path:
    REPLAY_DIR.mkdir(parents=True, exist_ok=True)
    blob = json.dumps(
        {'property': prop, **v.to_json()}, indent=1, sort_keys=True,
        default=str)
    h = hashlib.sha1(blob.encode()).hexdigest()[:12]
    path = REPLAY_DIR / f'{prop}-{h}.json'
    path.write_text(blob)
    return path


def short(obj, n=300) -> str:
    s = obj if isinstance(obj, str) else repr(obj)
    return s if len(s) <= n else s[:n] + '...'


def log(msg: str) -> None:
    print(msg, file=sys.stderr, flush=True)
