"""Registry of claimed checks -> MANIFEST.json (python -m vfw.registry)."""
from __future__ import annotations

import json
from pathlib import Path

VERIF = Path(__file__).resolve().parent.parent

# id: (engine, level, technique, design_ref, text, note)
CHECKS = {
    'C16': (
        'enum', 'exploration',
        'bounded-exhaustive input enumeration against a range() reference',
        '6/C16',
        'Every supported integer recurrence form over a box of start/end/'
        'step/repetition/exclusion values and (ICP, FCP) contexts is built '
        'through the real IntegerSequence and all seven query methods are '
        'compared at every point of a window with the arithmetic progression'
        ' computed independently. Exhaustive up to the box; nothing sampled.',
        'Decided up to the box only. Reference semantics taken from the '
        'documented meaning of each form; degenerate (fully excluded) '
        'sequences judged on membership only.'),
}

A_NOTE = (
    'Environment model of DESIGN.md 3.3 (jobs, command completions, clock) '
    'is the only model; localhost/background jobs only; deadlines '
    'abstracted to due/pending + firing order; bounded workflow catalogue.')
A_TECH = ('explicit-state model checking of the real Scheduler: exhaustive '
          'DFS over environment-event interleavings with canonical-state '
          'deduplication and validated prefix replay')
CHECKS['C01'] = (
    'schedmc', 'model_checking', A_TECH, '6/C01',
    'All interleavings of job/command events (every outcome assignment in '
    'which finished tasks are complete) over a catalogue of graph shapes are'
    ' explored on the real Scheduler main loop; at every job submission the '
    'instance must be on-sequence and its trigger expression true over '
    'outputs really produced by jobs; in every terminal state the set of '
    'instances run equals the spawn-on-demand closure computed from the '
    'graph term and the scheduler has shut itself down.', A_NOTE)

CHECKS['C02'] = (
    'schedmc', 'model_checking', A_TECH, '6/C02',
    'All interleavings and outcomes (success, failure, submit-failure) of '
    'job events, with retry delays released by clock jumps, on AND/OR/'
    'inter-cycle graphs: every jobs-submit is counted per instance against '
    '(N+1)(M+1); a resubmission is legal only after the previous job really '
    'failed; failed/submit-failed outputs may complete only when the '
    'environment has seen N+1 failed jobs / M+1 failed submissions.', A_NOTE)
CHECKS['C03'] = (
    'schedmc', 'model_checking', A_TECH, '6/C03',
    'Exploration with incomplete finishes (failure with success required, '
    'partial custom outputs), runahead limits and a stop point: the pool is '
    'inspected at every automatic shutdown and every stall report, every '
    'quiescent state is searched for a ready-but-unsubmitted task, and the '
    'terminal verdict (shutdown vs stall) must equal the verdict of the '
    'reference closure over the realised outcomes.', A_NOTE)
CHECKS['C42'] = (
    'hist', 'model_checking',
    'explicit-state BFS over API/environment histories of the real '
    'SubProcPool with fake processes and a virtual clock',
    '6/C42',
    'Every operation history (puts of short/slow/failing/255/timing-out/'
    'jobs-submit commands, process(), process exits, clock jumps, '
    'set_stopping, close, terminate) up to depth 5 (quick) / 7 (thorough), '
    'pool size 1-2, is executed on the real SubProcPool; a harness ledger '
    'checks <=1 callback per command always and exactly 1 when the pool is '
    'empty or terminated, occupancy <= size, and no jobs-submit start after '
    'stopping. States deduplicated; seam counters guard against vacuity.',
    'Real process creation and pipe back-pressure are not explored; pool '
    'size and time-out are set on the pool object; virtual time.')

B = 'enum'
CHECKS['C11'] = (B, 'exploration', 'bounded-exhaustive enumeration vs truth table + explicit-state exploration of the real Scheduler', '6/C11',
    'All graph-declarable task definitions over the standard outputs and 2 (thorough 3) custom outputs, produced by real graph parses, x all subsets of completed outputs: TaskOutputs.is_complete() vs a truth table of the documented default rule; plus all and/or user expressions <=4 (5) leaves x all subsets vs an independent evaluator. Exhaustive to the bounds.',
    'Plus a scheduler leg (model checking of the real Scheduler over 4 (thorough 7) one-cycle workflows with partial custom outputs, failures and one re-trigger of the possibly incomplete task): a proxy removed as completed must be complete and no complete finished proxy stays pooled at a main-loop boundary. Finished sets only for the default rule; the submitted?-only tolerance corner and the "logged" clause are not judged.')
CHECKS['C12'] = (B, 'exploration', 'bounded-exhaustive expression enumeration vs truth table', '6/C12',
    'Every and/or completion expression up to 5 (thorough 6) leaves over six outputs is classified by the real get_optional_outputs / iter_required_messages, run through skip-mode process_outputs on a real TaskProxy, and (<=4/5 leaves x all 216 graph optionality declarations) through the real _check_completion_expression plus a cross-section of full WorkflowConfig loads; compared with a brute-force truth table of an independently parsed tree. Exhaustive to the bound.',
    'Validation judged in the stated direction only (accepted => consistent); vacuous and succeeded-and-failed-required expressions not judged for skip mode.')
CHECKS['C13'] = (B, 'exploration', 'bounded-exhaustive enumeration with a Python AST reference against real Dependency/Prerequisite objects', '6/C13',
    'Exhaustive over 1-4 atom trigger expressions drawn from collision pools (names, labels, messages, negative / time-zoned / expanded-year points), all registration orders, all satisfaction subsets, all single-step satisfy_me sequences, plus about 185 real WorkflowConfig loads.',
    'Decided up to the bounds; messages containing operators excluded.')
CHECKS['C14'] = (B, 'exploration', 'bounded-exhaustive rendering equivalence plus mutation against an independent strict tokenizer', '6/C14',
    '1189 (thorough 8232) graph ASTs x every combination of up to 2 (thorough 3) presentation edits, 10k colliding-name expressions, and all one-character mutants of 6 base lines at 4 line positions, through the real GraphParser.',
    'A recorded-optionality difference counts only when confirmed through WorkflowConfig; ambiguous mutants excluded; one known finding (malformed line only rejected when last).')
CHECKS['C15'] = (B, 'exploration', 'bounded-exhaustive enumeration with truth-table comparison against a member-level reference', '6/C15',
    'All 14 family qualifiers x sizes 1-3 x colliding names x offsets x mixtures x right-side forms (4.3k, thorough 16.9k) through the real GraphParser, plus 224 (thorough 560) real config loads with families nested via inherit.',
    'Bounds as stated; rejected inputs counted, not judged.')
CHECKS['C17'] = ('hist', 'model_checking', 'breadth-first exploration of query histories with cache-state deduplication, plus bounded-exhaustive recurrence enumeration', '6/C17',
    'Every generated recurrence (all format alternatives; absolute, relative and truncated points; exclusion points and sequences) x 4 calendars x 2 time zones is built through the real ISO8601Sequence. Every single query in a window, and every query history up to depth 2 (every sequence) or 3 (thorough), is executed on a pristine object; answers compared with the harness-enumerated progression minus exclusions and with the fresh-object answer.',
    'Answers judged against the list only inside [ICP, FCP]; get_prev_point on-progression only; degenerate fully-excluded tails skipped.')
CHECKS['C18'] = (B, 'exploration', 'bounded-exhaustive pair/triple enumeration against field-generated reference values', '6/C18',
    'For the integer type and 14 (quick) / 28 (thorough) calendar x time-zone x expanded-year x format configurations, every ordered pair of a field-generated point catalogue is compared with all six operators and hashed through the real classes; trichotomy and transitivity over all triples; every 3-subset sorted; standardise twice; every point x fixed-length interval added then subtracted.',
    'Decided for the catalogues only. Zone-less or strptime formats, month/year intervals and cross-type comparisons out of scope. Two known findings (ISO hash of unstandardised points; isodatetime ordinal-date rollover).')
CHECKS['C23'] = (B, 'exploration', 'independent grammar renderer; format/parse/re-format, eq/hash, relative-vs-absolute and legacy-upgrade compared with it', '6/C23',
    'All 135 identifier structures x all adjacent-field value pairs over a 26/100-value pool plus the diagonal; all legacy forms over digit-led cycles <=2/3 chars, through the real Tokens/tokenise/detokenise/upgrade_legacy_ids/_parse_cli.',
    'Adjacent-field pairs (not the full product); values containing / : ~ newline or edge blanks excluded.')
CHECKS['C24'] = (B, 'exploration', 'bounded-exhaustive AST-shape enumeration with side-effect canaries', '6/C24',
    'All context chains (99 leaf node kinds x 63 parent-field contexts, depth <=2, thorough <=3) are run through the real CompletionEvaluator, RankingExpressionEvaluator and evaluators built by restricted_evaluator, with canary variables; forbidden node => configured error and empty canary log, else outcome and log equal Python\'s own evaluation with empty recording builtins; 237 unsupplied names probed.',
    'Bounded language of context chains, not all ASTs; resource exhaustion not covered.')
CHECKS['C34'] = (B, 'exploration', 'bounded-exhaustive enumeration of parameterised graph lines and runtime headings against an itertools.product reference', '6/C34',
    'With a fixed pool of 4 (thorough 6) integer/string parameters, every 1- and 2-node graph line over all <...> groups of <=2 items (plain, fixed value, out-of-range value, offsets, both orders), 3-node lines, multi-group nodes and every runtime heading form are expanded by the real GraphExpander/NameExpander and compared with the Cartesian product over the parameters used.',
    'Decided for this pool and grammar only. GraphParser treatment of a removed node alone on an arrow side is not judged.')
CHECKS['C35'] = (B, 'exploration', 'bounded-exhaustive enumeration of inheritance hierarchies against Python\'s own MRO', '6/C35',
    'Every acyclic runtime hierarchy on <=5 (thorough <=6) namespaces with <=3-4 ordered parents is linearized by the real C3.mro for every namespace and compared with type(name, bases, {}).__mro__; TypeError in Python requires rejection by cylc. A fixed stride goes through a real WorkflowConfig; all small cyclic hierarchies must be rejected.',
    'Decided up to the size bound; the WorkflowConfig path covers a stride.')
CHECKS['C36'] = (B, 'exploration', 'bounded-exhaustive combination of configuration features; parse, dump, re-parse, compare', '6/C36',
    'Every combination of <=3 (thorough <=4) of 43 concrete feature atoms (quoting, multi-line strings, comments, backslash continuation, nested %include, Jinja2, repeated sections, CRLF/tabs) on a valid flow.cylc is parsed by the real fileparse.parse, the processed file is parsed again, and the dictionaries compared (differing pairs again as validated configurations).',
    'Decided for this catalogue only. Sources cylc rejects are not judged. The plugin entry-point scan is memoised by the harness.')
CHECKS['C37'] = (B, 'exploration', 'bounded-exhaustive literal enumeration through the real store and restore code', '6/C37',
    'Every Python literal of a bounded grammar (96 atoms incl. huge/special numbers and all string quoting forms, in containers to depth 2/3) is accepted through the real CLI parser, written by the real first-start DB path, read back by the scheduler restart callback, get_template_vars_from_db and a second restart, and compared in value and type; every (stored, CLI) pair checked for CLI precedence.',
    'Engine-B part only; complex zero sign, nan, -S/-z sources not judged.')
CHECKS['C39'] = (B, 'exploration', 'every accepted name resolved with os.path arithmetic; component-wise strict-descendant and reserved-component test', '6/C39',
    'All names of <=4 (quick) / <=5 (thorough) symbols over a 23-symbol alphabet of path-significant characters and every reserved directory name, through validate_workflow_name / check_reserved_dir_names.',
    'Decided up to that length only; containment judged on normalised paths.')
CHECKS['C40'] = (B, 'exploration', 'DBs written via the real DAO, queried via the real checker and xtrigger; hand matcher; multiset comparison', '6/C40',
    'All names/cycles <=3 chars x all patterns <=3/4 symbols; all DBs of <=2/3 instances from a 24-instance menu x 864 queries; one-instance DBs through the workflow_state xtrigger function.',
    'Integer-cycling DBs only; result order not judged.')
CHECKS['C41'] = (B, 'exploration', 'bounded-exhaustive value enumeration with real-shell evaluation', '6/C41',
    'Every value of length <=3/4 over an 11/16-character alphabet plus ~user forms is rendered by the real job-file writer, executed by real bash, and compared with what a child process sees; every ordering of three variables with $X, ${X}, $(printenv X) references checked for definition order.',
    'Fragment runs standalone without errexit; : $ backquote backslash and double quote excluded; parser layer not covered.')
CHECKS['C47'] = (B, 'exploration', 'bounded-exhaustive configuration enumeration through the real config loader; choice-point enumeration for random selection', '6/C47',
    'Every ordered sequence of platform headings from an alphabet of literal, regex, alternation, comma-list and {m,n} forms, written to real global.cylc files and loaded by the real parser, resolved for every name of a small universe and compared with a hand-written matcher (last full match wins). Every host list, bad-host subset and method, and every group member list, with all random choices enumerated.',
    'Up to 3-4 headings, 3-4 hosts, 3 group members. Re-opened headings not judged.')

CHECKS['C38'] = ('hist', 'exploration', 'bounded-exhaustive tree x pattern enumeration with lstat snapshots and an independent glob matcher', '6/C38',
    'Every run-dir tree of <=3 (thorough <=5) of 21 features x 21 (thorough 39) --rm patterns plus wholesale, built on disk with symlink roots, outside sentinels and sibling workflows, cleaned through the real local init_clean path; containment, no-follow and completeness judged from before/after snapshots.',
    'Flat workflow ID, no dot-names, no symlink cycles; refusals judged for containment only.')
CHECKS['C44'] = ('hist', 'fault_enumeration', 'umask x left-over-state enumeration of the real start-up file creation', '6/C44',
    'All 512 umasks x 5 (thorough 9) left-over states of .service; each start-up runs the real register, make_workflow_run_tree, key_housekeeping and WorkflowDatabaseManager.on_workflow_start in the scheduler order; afterwards the private DB and every *.key_secret must have no group/other bits. Exhaustive; a slice is re-run one forked child per case.',
    'Judged at end of start-up only; run as root; rest of Scheduler start-up not executed.')
CHECKS['C48'] = ('hist', 'model_checking', 'breadth-first history exploration of real install/reinstall/clean with state deduplication', '6/C48',
    'All histories (depth 6 quick, 10 thorough) over install, --run-name, --no-run-name, reinstall and clean of every run, executed through install_workflow/reinstall_workflow/init_clean with rsync on tmpfs; reference = monotone counter + latest run; checks run<k+1>, runN target, byte-identity of existing runs.',
    'One workflow and one source; reuse judged within one lifetime of the workflow directory; one known finding (run number reused after the latest run is cleaned).')

CHECKS['C06'] = (
    'schedmc', 'model_checking', A_TECH, '6/C06',
    'Operator commands (hold/release of every instance in bounds incl. not-yet-spawned ones, set/release hold point, trigger) are injected at every main-loop boundary of the explored runs, followed by stop --now --now and restart at every later boundary. A reference held set and hold point built from the statement are compared with the scheduler\'s held set, hold point and every proxy\'s held flag after every transition (including after restart), and no held task may enter preparation.',
    A_NOTE)

CHECKS['C21'] = ('hist', 'fault_enumeration', 'exhaustive fault-position and failure-pattern enumeration on the real DAO pair with an injected sqlite3 connection seam; oracle = full table dumps', '6/C21',
    'Batches queued through the real WorkflowDatabaseManager.put_* API (28 operations over all tables) are written with a fault injected before every row of every statement and at commit of the private write (error raised, and process killed in a forked child), requiring the reopened private DB to dump exactly as before; every sequence of batches x every pattern of public-DB lock failures, and every run length of consecutive failures around MAX_TRIES with the main loop health check, must end with every public table equal to the private one after a clean flush.',
    'Bounded to the stated batch menus, sequence lengths (<=3 quick, <=4 thorough) and failure positions; process kill, not power loss; injected lock cross-checked against a real sqlite lock.')
CHECKS['C22'] = ('hist', 'model_checking', 'explicit-state BFS over operation histories of the real component, replay per transition, independent reference model', '6/C22',
    'Every history of put/clear/expire/flush/restart up to depth 3 (quick: 50-operation menu; thorough: 106-operation menu at depth 3 plus 20-operation menu at depth 4) is executed on a real BroadcastMgr + WorkflowDatabaseManager + sqlite DB; broadcast state after every operation, the configuration received by tasks at three cycles, and the state after flush + DB reload into fresh managers are compared with a dict-overlay reference written from the statement.',
    'Decided up to depth/menu only; restart = the calls _load_pool_from_db makes, not a whole scheduler restart (that is C19).')

CHECKS['C26'] = (
    'schedmc', 'model_checking', A_TECH, '6/C26',
    'The bookkeeping invariants (no duplicate proxy, proxy stored under its own key and point, no empty cycle bucket, cached task list = true contents, task_pool table = pool with status/flows/held) are evaluated after every transition of natural runs, runs with retries and failures, and runs with hold/trigger-new-flow/remove/set commands at every boundary plus stop and restart.',
    A_NOTE)

CHECKS['C20'] = (
    'schedmc', 'fault_enumeration',
    'exhaustive crash-point enumeration (every database commit inside every explored main-loop iteration, and every boundary) on the real Scheduler, then restart from the on-disk image; explicit-state search with deduplication', '6/C20',
    'For every explored transition (state, event) of small workflows and every commit position k=1..4 inside the iteration handling the event (plus the boundary, k=0) the scheduler is killed right after that commit through an sqlite connection seam, the byte image of the private/public DB of that instant is restored, and a new Scheduler restarts from it while jobs carry on (a jobs-submit in flight either launches or is lost). Oracles: no job launched twice under one submit number, no resubmission without failure, and in every terminal state the set of instances run equals the reference closure.',
    'Process death only (SQLite journal guarantees assumed); one crash per execution; two known findings recorded (double launch of a submit in flight; child lost after the early flush in TaskPool.remove).')

CHECKS['C33'] = (
    'schedmc', 'model_checking', A_TECH, '6/C33',
    'Custom xtriggers shared between tasks and cycles (and per-cycle signatures) with call intervals of 2-5 s: each call is a fake process whose result (False with a budget, or True) and completion time are chosen by the explorer, with clock jumps to every next-call deadline. Per signature the monitor checks at most one call in progress, consecutive calls (queue times) at least the interval apart, no call after a success while a pooled task still needs it, and in quiescent states every dependent of a succeeded signature is satisfied.',
    A_NOTE)

CHECKS['C10'] = (
    'schedmc', 'model_checking', A_TECH + '; iterative deviation bounding (budget 0..2) of message-delivery deviations', '6/C10',
    'Exploration of the real Scheduler under message-delivery deviations (held, reordered, lost, duplicated or stale-submit-number messages, early start, late poll results, extra polls, batched messages) for 1-2 tasks with 0-1 retries. Oracle over environment ground truth: a message from an older submit is inert; a received message that would move status backwards causes a poll and no change; in every settled/terminal state status and outputs equal the latest job\'s real outcome; poll timers really poll.',
    A_NOTE)
CHECKS['C09'] = (
    'schedmc', 'model_checking', A_TECH, '6/C09',
    'Same space as C10 plus submission retries and submit failures. A lifecycle automaton written from the statement is applied to every TaskState.reset of pooled proxies (retries justified by ground truth), outputs must be monotone at every funnel event and boundary, and succeeded|failed complete implies submitted and started complete.',
    A_NOTE + ' One known finding (a stale poll result moves a finished task back to running) is tolerated so that exploration continues behind it.')

CHECKS['C04'] = (
    'schedmc', 'model_checking', A_TECH, '6/C04',
    'At every runahead release (TaskState.reset flipping is_runahead, including during start-up) the released point is compared with a limit recomputed from scratch from the graph term and the live pool points exactly as the statement says ((n+1)-th recurrence point or duration, largest future offset, stop-point cap, manual exemption), over 14 (quick) / 56 (thorough) workflows with 1-3 recurrences, limits P0..P4 and durations, future triggers, stop points and stop/trigger commands; terminals must be self-shutdown with no runahead-starved task and the full closure run.',
    A_NOTE + ' All-success runs; no restarts.')
CHECKS['C31'] = (
    'schedmc', 'model_checking', A_TECH, '6/C31',
    'Sequential tasks on 1-3 recurrences with success/failure outcomes and runahead P1-P3: in every state at most one instance of a sequential task is active (pool and environment); at each submission the term-derived previous instance really succeeded or precedes the start point; terminals are prefix-ordered with nothing after a failure.',
    A_NOTE)
CHECKS['C07'] = (
    'schedmc', 'model_checking', A_TECH, '6/C07',
    'All interleavings of job/command events and operator stop --cycle-point / trigger / set / resume commands (budget 1-2, every boundary) over graphs with several recurrences (P1, P2, +P1/P2, R1, R1/$), -P1/-P2/+P1 offsets incl. a future trigger at the final cycle, configured/optioned/commanded stop points, limited queues and paused starts: every pool addition must lie on the reference recurrence of the task within [ICP, FCP]; with a stop point in force no instance beyond it may enter job preparation unless trigger named it.',
    A_NOTE + ' No retries, no restart; instances already in the submission pipeline when the stop point is set are exempt.')
CHECKS['C46'] = (
    'schedmc', 'model_checking', A_TECH, '6/C46',
    'Graph shapes x every start cycle point after the ICP x every single start task and selected pairs (x trigger of each pre-start instance): no instance before START is prepared/submitted unless triggered by name; every dependency atom pointing before START is satisfied when its dependent enters the pool; at each submission the trigger expression (pre-START atoms true) holds over outputs really produced; at every terminal the run set equals the reference closure from START, or the closure seeded with exactly the start tasks.',
    A_NOTE + ' START for start tasks = earliest start task cycle (documented); no --flow=new, no restart.')
CHECKS['C45'] = (
    'schedmc', 'model_checking', A_TECH, '6/C45',
    'Absolute-trigger graphs (s[^], foo[^], foo[2], custom and :start outputs, AND with ordinary parents, two absolute parents) x all event interleavings x one stop --now --now + restart at every boundary: once the environment has really completed the absolute output, every pooled dependent instance - present, spawned later, restored by the restart or spawned after it - must have that atom satisfied; when all jobs are final every dependent ran.',
    A_NOTE + ' One restart; jobs frozen while down.')

CHECKS['C05'] = (
    'schedmc', 'model_checking', A_TECH + '; plus bounded-exhaustive enumeration of queue configurations', '6/C05',
    'Dynamic leg: the real Scheduler on 6 (quick) / 12 (thorough) queue-limited fan-out/chain workflows x all job outcome orders x hold/release/trigger commands; every release is judged against the limit (preparing/submitted/running/awaiting-preparation members), FIFO order and held-skipping, and after every transition active-minus-manual <= limit and every queued proxy sits in exactly its owner deque. Static leg: all <=3-queue membership assignments over 4 tasks + 1 family, limits 0..3, through the real IndepQueueManager/WorkflowConfig against "last queue that lists it, else default".',
    A_NOTE + ' R1 single-cycle graphs, all-success jobs, no reload/restart.')
CHECKS['C32'] = (
    'schedmc', 'model_checking', A_TECH, '6/C32',
    'Datetime workflows with clock-expire offsets; the virtual clock is advanced to each pending expiry deadline and to 1 s before it at every boundary, with trigger/hold commands. Every transition to expired is judged (from waiting, not manually triggered, now >= cycle point + offset computed independently), as is every later jobs-submit and everything added to the pool while the expired output is completed (exactly the :expire children).',
    A_NOTE + ' Hourly UTC cycling; liveness of expiry not judged.')
CHECKS['C08'] = (
    'schedmc', 'model_checking', A_TECH, '6/C08',
    'Trigger/set commands with --flow=new|none|N|all and --wait (1-2 per execution quick, <=3 thorough) at every boundary of chain/diamond/OR-diamond runs, with one stop --now --now + restart between commands. Every number allocated for --flow=new must be absent from the monitor\'s ever-seen set (kept outside the scheduler across restarts); at every spawn/merge a new child carries exactly its parent\'s flows and an existing one ends in the union; an instance finished-complete in flow f and respawned carrying f is never submitted unless manually triggered.',
    A_NOTE)
CHECKS['C30'] = (
    'schedmc', 'model_checking', A_TECH, '6/C30',
    'Every cylc remove (with and without --flow) of every instance at every boundary of chain/diamond/OR-diamond/inter-cycle runs, optionally after a set-up command creating a force-satisfied prerequisite or a second flow. The pool right before/after the command and the private DB at the end of that iteration are diffed against a frame computed from the statement and the graph term; a removed instance back in the pool with all prerequisites must run.',
    A_NOTE + ' One removal per execution.')
CHECKS['C27'] = (
    'schedmc', 'model_checking', A_TECH, '6/C27',
    'At every boundary of every reachable state of small workflows (held, queued, paused, runahead-limited states included) a variant definition (unchanged, +task, +edge, -task, -edge) is swapped in and reload_workflow queued. Pool at entry of the reload vs pool at the end of the command: status, flows, submit number, held, outputs (and runahead when nothing was dropped) equal; prerequisite atoms are those of the new term; kept atoms keep their satisfaction; new atoms satisfied iff a job delivered that output; orphans dropped iff still waiting.',
    A_NOTE + ' Pending jobs-submit commands are completed successfully during the reload wait loop.')
CHECKS['C25'] = (
    'schedmc', 'model_checking', A_TECH, '6/C25',
    'Natural runs of the C01 shapes plus hold/release/trigger commands, one reload and (thorough) graph-window resizes: after every Scheduler.update_data_structure each pooled proxy is compared with its data-store element; a client mirror initialised from the first published batch is fed every later batch through a protobuf round trip and data_store_mgr.apply_delta and must equal the scheduler store element-wise, with matching checksums.',
    A_NOTE + ' Restarts excluded; only the all topic is consumed; the client merge is a reconstruction of the UI server procedure around the real apply_delta.')

CHECKS['C19'] = (
    'schedmc', 'model_checking', A_TECH, '6/C19',
    'A stop in each mode (clean, --now, --now --now) at every reachable main-loop boundary of 9 (12) small workflows (holds, hold point, broadcast, xtrigger, stop point, stop task, second flow), jobs stepping while the scheduler is down, 1-2 restarts, explored to all terminal states. In-memory pool at scheduler exit vs pool when the next Scheduler.start() returns: status (preparing -> waiting, same submit number reused), flows, held, submit number, completed outputs, prerequisite atoms, xtriggers, hold/stop point, stop task, broadcasts, flow counter; terminal: reference closure over realised outcomes + submit-once.',
    A_NOTE + ' All-success jobs; runahead/queued flags and timers not compared.')
CHECKS['C43'] = (
    'schedmc', 'model_checking', A_TECH, '6/C43',
    'stop <point> / stop <task> and stop / stop --now (--now --now) at every boundary of 7 (10) small workflows, then restart, to all terminal states. Reference stop point / stop task from the command log and the reference closure over environment truth: no submission beyond the stop point, automatic shutdown iff nothing <= stop point is left or the stop task succeeded, stopcp row NULL once reached else persisted and restored, clean stop only with no active job, --now goes down at once and job states are recovered after restart.',
    A_NOTE + ' One recorded finding (stall on an incomplete task beyond the stop point).')
CHECKS['C28'] = (
    'schedmc', 'model_checking', A_TECH, '6/C28',
    'cylc trigger on every subset (<=2 quick, <=3 thorough) of instances at every reachable boundary, flows all/new/none/N, with hold, pause, queue-limit and repeated-trigger entries. A per-trigger ledger checks immediate start of group-start members, in-group order against outputs really produced by jobs, live jobs left alone, at most one run per member in the trigger flows, and every member run at termination.',
    A_NOTE + ' One recorded finding (a member removed while preparing still gets its queued job submission).')
CHECKS['C29'] = (
    'schedmc', 'model_checking', A_TECH, '6/C29',
    'cylc set on every instance (active, finished, unspawned) with every output and prerequisite selection at every reachable boundary of <=3-task graphs. Children, satisfied atoms, implied outputs and the default selection are compared with a graph-term reference that also judges every natural output completion (one reference for forced and natural completion); frame check; a task whose prerequisites were all set must run.',
    A_NOTE + ' --out=skip, --flow=new/none, --wait, family/glob targets out of scope.')

NOT_BUILT_REASON = (
    'check not built yet in this session (designed in DESIGN.md section 6); '
    'no verdict is claimed')


def build() -> dict:
    props = [json.loads(line) for line in
             (VERIF / 'properties.jsonl').read_text().splitlines() if line]
    checks = []
    na = []
    for p in props:
        pid = p['id']
        if pid in CHECKS:
            eng, level, tech, ref, text, note = CHECKS[pid]
            checks.append({
                'property_id': pid,
                'quick_cmd': f'./vf check {pid} --tier quick',
                'thorough_cmd': f'./vf check {pid} --tier thorough',
                'evidence_file': f'/verif/evidence/{pid}.json',
                'replay_cmd_template': './vf replay {path}',
                'engine': eng,
                'level_claimed': {
                    'category': level, 'text': text,
                    'design_ref': f'DESIGN.md section {ref}'},
                'level_note': note,
                'technique': tech,
            })
        else:
            na.append({'property_id': pid, 'reason': NA.get(
                pid, NOT_BUILT_REASON)})
    engines = {}
    for pid, c in CHECKS.items():
        engines.setdefault(c[0], []).append(pid)
    return {
        'version': 1,
        'setup_cmd': 'true',
        'hooks': {
            'guard': 'CYLC_FLOW_VERIF',
            'enable': 'no source hooks: every seam is a harness-side '
                      'replacement of module attributes (./vf exports '
                      'CYLC_FLOW_VERIF=1 for uniformity)',
            'baseline_off_cmd': (
                'cd /repo && /venv/bin/python -m pytest -ra -q -p '
                'no:cacheprovider --timeout=900 '
                '--continue-on-collection-errors'),
            'source_commits': [],
            'add_only': True,
        },
        'engines': [
            {'name': n, 'path': f'/verif/vfw/{ENGINE_PATH[n]}',
             'serves_properties': sorted(ps),
             'kind_free_text': ENGINE_TEXT[n]}
            for n, ps in sorted(engines.items())
        ],
        'checks': checks,
        'not_applicable': na,
        'notes': 'See DESIGN.md. Known findings: known_findings.json.',
    }


ENGINE_PATH = {'enum': 'props', 'hist': 'props', 'schedmc': 'sched'}
ENGINE_TEXT = {
    'enum': 'bounded-exhaustive enumeration of inputs against independent '
            'reference models, executed on the real code',
    'hist': 'breadth-first exploration of operation/fault histories of one '
            'real component with state deduplication',
    'schedmc': 'explicit-state exploration of the real Scheduler under a '
               'virtual event loop, clock and process pool; all '
               'interleavings of environment events, states deduplicated',
}
NA: dict = {}


def main():
    m = build()
    (VERIF / 'MANIFEST.json').write_text(json.dumps(m, indent=1) + '\n')
    print(f"MANIFEST.json: {len(m['checks'])} checks, "
          f"{len(m['not_applicable'])} not_applicable")


if __name__ == '__main__':
    main()
