"""Registry of claimed checks -> MANIFEST.json (python -m vfw.registry)."""
from __future__ import annotations

import json
from pathlib import Path

VERIF = Path(__file__).resolve().parent.parent

# id: (engine, level, technique, design_ref, text, note)
CHECKS = {
    'C16': (
        'enum', 'exploration',
        'bounded-exhaustive input enumeration against a range() reference',
        '6/C16',
        'Every supported integer recurrence form over a box of start/end/'
        'step/repetition/exclusion values and (ICP, FCP) contexts is built '
        'through the real IntegerSequence and all seven query methods are '
        'compared at every point of a window with the arithmetic progression'
        ' computed independently. Exhaustive up to the box; nothing sampled.',
        'Decided up to the box only. Reference semantics taken from the '
        'documented meaning of each form; degenerate (fully excluded) '
        'sequences judged on membership only.'),
}

A_NOTE = (
    'Environment model of DESIGN.md 3.3 (jobs, command completions, clock) '
    'is the only model; localhost/background jobs only; deadlines '
    'abstracted to due/pending + firing order; bounded workflow catalogue.')
A_TECH = ('explicit-state model checking of the real Scheduler: exhaustive '
          'DFS over environment-event interleavings with canonical-state '
          'deduplication and validated prefix replay')
CHECKS['C01'] = (
    'schedmc', 'model_checking', A_TECH, '6/C01',
    'All interleavings of job/command events (every outcome assignment in '
    'which finished tasks are complete) over a catalogue of graph shapes are'
    ' explored on the real Scheduler main loop; at every job submission the '
    'instance must be on-sequence and its trigger expression true over '
    'outputs really produced by jobs; in every terminal state the set of '
    'instances run equals the spawn-on-demand closure computed from the '
    'graph term and the scheduler has shut itself down.', A_NOTE)

CHECKS['C02'] = (
    'schedmc', 'model_checking', A_TECH, '6/C02',
    'All interleavings and outcomes (success, failure, submit-failure) of '
    'job events, with retry delays released by clock jumps, on AND/OR/'
    'inter-cycle graphs: every jobs-submit is counted per instance against '
    '(N+1)(M+1); a resubmission is legal only after the previous job really '
    'failed; failed/submit-failed outputs may complete only when the '
    'environment has seen N+1 failed jobs / M+1 failed submissions.', A_NOTE)
CHECKS['C03'] = (
    'schedmc', 'model_checking', A_TECH, '6/C03',
    'Exploration with incomplete finishes (failure with success required, '
    'partial custom outputs), runahead limits and a stop point: the pool is '
    'inspected at every automatic shutdown and every stall report, every '
    'quiescent state is searched for a ready-but-unsubmitted task, and the '
    'terminal verdict (shutdown vs stall) must equal the verdict of the '
    'reference closure over the realised outcomes.', A_NOTE)
CHECKS['C42'] = (
    'hist', 'model_checking',
    'explicit-state BFS over API/environment histories of the real '
    'SubProcPool with fake processes and a virtual clock',
    '6/C42',
    'Every operation history (puts of short/slow/failing/255/timing-out/'
    'jobs-submit commands, process(), process exits, clock jumps, '
    'set_stopping, close, terminate) up to depth 5 (quick) / 7 (thorough), '
    'pool size 1-2, is executed on the real SubProcPool; a harness ledger '
    'checks <=1 callback per command always and exactly 1 when the pool is '
    'empty or terminated, occupancy <= size, and no jobs-submit start after '
    'stopping. States deduplicated; seam counters guard against vacuity.',
    'Real process creation and pipe back-pressure are not explored; pool '
    'size and time-out are set on the pool object; virtual time.')

NOT_BUILT_REASON = (
    'check not built yet in this session (designed in DESIGN.md section 6); '
    'no verdict is claimed')


def build() -> dict:
    props = [json.loads(line) for line in
             (VERIF / 'properties.jsonl').read_text().splitlines() if line]
    checks = []
    na = []
    for p in props:
        pid = p['id']
        if pid in CHECKS:
            eng, level, tech, ref, text, note = CHECKS[pid]
            checks.append({
                'property_id': pid,
                'quick_cmd': f'./vf check {pid} --tier quick',
                'thorough_cmd': f'./vf check {pid} --tier thorough',
                'evidence_file': f'/verif/evidence/{pid}.json',
                'replay_cmd_template': './vf replay {path}',
                'engine': eng,
                'level_claimed': {
                    'category': level, 'text': text,
                    'design_ref': f'DESIGN.md section {ref}'},
                'level_note': note,
                'technique': tech,
            })
        else:
            na.append({'property_id': pid, 'reason': NA.get(
                pid, NOT_BUILT_REASON)})
    engines = {}
    for pid, c in CHECKS.items():
        engines.setdefault(c[0], []).append(pid)
    return {
        'version': 1,
        'setup_cmd': 'true',
        'hooks': {
            'guard': 'CYLC_FLOW_VERIF',
            'enable': 'no source hooks: every seam is a harness-side '
                      'replacement of module attributes (./vf exports '
                      'CYLC_FLOW_VERIF=1 for uniformity)',
            'baseline_off_cmd': (
                'cd /repo && /venv/bin/python -m pytest -ra -q -p '
                'no:cacheprovider --timeout=900 '
                '--continue-on-collection-errors'),
            'source_commits': [],
            'add_only': True,
        },
        'engines': [
            {'name': n, 'path': f'/verif/vfw/{ENGINE_PATH[n]}',
             'serves_properties': sorted(ps),
             'kind_free_text': ENGINE_TEXT[n]}
            for n, ps in sorted(engines.items())
        ],
        'checks': checks,
        'not_applicable': na,
        'notes': 'See DESIGN.md. Known findings: known_findings.json.',
    }


ENGINE_PATH = {'enum': 'props', 'hist': 'hist', 'schedmc': 'sched'}
ENGINE_TEXT = {
    'enum': 'bounded-exhaustive enumeration of inputs against independent '
            'reference models, executed on the real code',
    'hist': 'breadth-first exploration of operation/fault histories of one '
            'real component with state deduplication',
    'schedmc': 'explicit-state exploration of the real Scheduler under a '
               'virtual event loop, clock and process pool; all '
               'interleavings of environment events, states deduplicated',
}
NA: dict = {}


def main():
    m = build()
    (VERIF / 'MANIFEST.json').write_text(json.dumps(m, indent=1) + '\n')
    print(f"MANIFEST.json: {len(m['checks'])} checks, "
          f"{len(m['not_applicable'])} not_applicable")


if __name__ == '__main__':
    main()
