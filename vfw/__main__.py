import sys
from .cli import main
sys.exit(main())
