"""vf check <ID> [--tier quick|thorough] | vf replay <file> | vf list"""
from __future__ import annotations

import argparse
import importlib
import json
import os
import subprocess
import sys
import time
import traceback
from pathlib import Path

from . import core
from .core import (
    Ctx, EXIT_HARNESS, EXIT_OK, EXIT_VIOLATION, HarnessError, Result,
    Violation,
)

MAX_REPORTED = 5   # distinct unknown signatures written as replay files


def load_prop(pid: str):
    return importlib.import_module(f'vfw.props.{pid.lower()}')


def cmd_check(args) -> int:
    pid = args.prop.upper()
    tier = args.tier or os.environ.get('VERIF_TIER') or 'quick'
    if tier not in ('quick', 'thorough'):
        tier = 'quick'
    try:
        seed = int(os.environ.get('VERIF_SEED', '0'))
    except ValueError:
        seed = 0
    workers = int(os.environ.get('VERIF_WORKERS', '0')) or (
        os.cpu_count() or 4)
    scratch = core.scratch_root()
    core.hermetic_env(scratch)
    ctx = Ctx(pid, tier, seed, workers, scratch)
    t0 = time.time()
    try:
        mod = load_prop(pid)
        res: Result = mod.run(ctx)
    except HarnessError as exc:
        core.log(f'HARNESS-ERROR property={pid}: {exc}')
        return EXIT_HARNESS
    except Exception:
        core.log(f'HARNESS-ERROR property={pid}:\n{traceback.format_exc()}')
        return EXIT_HARNESS
    wall = time.time() - t0

    findings = core.load_findings()
    by_sig = {}
    for v in res.violations:
        by_sig.setdefault(v.signature, []).append(v)
    known, unknown = [], []
    for sig, vs in by_sig.items():
        f = core.finding_for(pid, sig, findings)
        (known if f else unknown).append((sig, vs, f))

    level = res.level or getattr(mod, 'LEVEL', 'exploration')
    cov = dict(res.coverage)
    cov.setdefault('exhaustive', True)
    cov['known_findings_observed'] = sorted(s for s, _, _ in known)
    ev = {
        'property_id': pid,
        'tier': tier,
        'seed': seed,
        'level': level,
        'coverage': cov,
        'assumptions': res.assumptions,
        'wall_s': round(wall, 3),
        'violations': len(unknown),
    }
    try:
        core.write_evidence(ev)
    except HarnessError as exc:
        core.log(f'HARNESS-ERROR property={pid}: evidence invalid: {exc}')
        if not unknown:
            return EXIT_HARNESS
        # a violation must never be hidden by a degenerate coverage record

    for sig, vs, f in known:
        print(f'KNOWN-FINDING: property={pid} {sig}: {vs[0].what} '
              f'({len(vs)} case(s))')
    rc = EXIT_OK
    for sig, vs, _ in unknown[:MAX_REPORTED]:
        v = vs[0]
        path = core.write_replay(pid, v)
        # determinism: re-execute linearly in a fresh process
        if hasattr(mod, 'replay') and not args.no_verify:
            ok = _verify_replay(path, sig)
            if ok is False:
                core.log(
                    f'HARNESS-ERROR property={pid}: violation {sig} did not '
                    f'reproduce on replay ({path})')
                return EXIT_HARNESS
        print(f'# {sig}: {v.what} ({len(vs)} case(s))')
        print(f'VIOLATION property={pid} replay={path}')
        rc = EXIT_VIOLATION
    for sig, vs, _ in unknown[MAX_REPORTED:]:
        print(f'# (no replay file written) {sig}: {vs[0].what} '
              f'({len(vs)} case(s))')
    summ = {k: v for k, v in cov.items()
            if isinstance(v, (int, float, bool, str)) and k != 'rule'}
    core.log(f'{pid} {tier} seed={seed} wall={wall:.1f}s {summ}')
    return rc


def _verify_replay(path: Path, sig: str):
    proc = subprocess.run(
        [sys.executable, '-m', 'vfw', 'replay', str(path)],
        capture_output=True, text=True, timeout=1800,
        env={**os.environ},
    )
    if proc.returncode == EXIT_VIOLATION and f'signature={sig}' in proc.stdout:
        return True
    core.log(proc.stdout[-2000:] + proc.stderr[-2000:])
    return False


def cmd_replay(args) -> int:
    data = json.loads(Path(args.file).read_text())
    pid = data['property']
    scratch = core.scratch_root()
    core.hermetic_env(scratch)
    mod = load_prop(pid)
    if not hasattr(mod, 'replay'):
        print(f'property {pid} has no linear replay; payload follows')
        print(json.dumps(data, indent=1))
        return EXIT_HARNESS
    vs = mod.replay(data['payload'])
    if not vs:
        print(f'replay of {args.file}: property {pid} HOLDS on this tree')
        return EXIT_OK
    for v in vs:
        print(f'signature={v.signature}')
        print(f'  {v.what}')
    print(f'VIOLATION property={pid} replay={args.file}')
    return EXIT_VIOLATION


def cmd_list(args) -> int:
    pdir = Path(__file__).parent / 'props'
    for p in sorted(pdir.glob('c[0-9]*.py')):
        print(p.stem.upper())
    return 0


def main(argv=None) -> int:
    ap = argparse.ArgumentParser(prog='vf')
    sub = ap.add_subparsers(dest='cmd', required=True)
    c = sub.add_parser('check')
    c.add_argument('prop')
    c.add_argument('--tier', choices=['quick', 'thorough'])
    c.add_argument('--no-verify', action='store_true')
    c.set_defaults(fn=cmd_check)
    r = sub.add_parser('replay')
    r.add_argument('file')
    r.set_defaults(fn=cmd_replay)
    li = sub.add_parser('list')
    li.set_defaults(fn=cmd_list)
    args = ap.parse_args(argv)
    return args.fn(args)
