#!/bin/bash
# run every registered thorough check once (long); summary on stdout
cd "$(dirname "$0")/.."
# optional arguments: the property ids to run (default: all)
for c in ${@:-$(python3 -c "import json;print(' '.join(x['property_id'] for x in json.load(open('MANIFEST.json'))['checks']))")}; do
  t0=$(date +%s)
  VERIF_WORKERS=${VERIF_WORKERS:-8} timeout 3600 ./vf check $c --tier thorough --no-verify > /tmp/thorough-$c.log 2>&1
  rc=$?
  t1=$(date +%s)
  echo "$c exit=$rc wall=$((t1-t0))s known=$(grep -c '^KNOWN-FINDING' /tmp/thorough-$c.log) viol=$(grep -c '^VIOLATION' /tmp/thorough-$c.log) $(tail -1 /tmp/thorough-$c.log | cut -c1-160)"
  grep '^# ' /tmp/thorough-$c.log | cut -c1-300 | head -5
  rm -f /tmp/thorough-$c.log
done
echo ALLDONE
