import os, sys, importlib
sys.path.insert(0,'/verif')
from vfw import core
scr = core.scratch_root(); core.hermetic_env(scr)
mod = importlib.import_module('vfw.props.'+sys.argv[1])
from vfw.sched.explore import Explorer
specs = mod.catalogue(sys.argv[4] if len(sys.argv)>4 else 'quick')
for s in specs[int(sys.argv[2]):int(sys.argv[3])]:
    ex = Explorer(mod.make_factory(s)(), max_states=3000, max_seconds=200)
    st = ex.run()
    print(s['name'], 'states', st.states, 'trans', st.transitions, 'replays', st.replays, st.terminals, 'err', (st.error or '')[-1500:])
    for v in st.violations[:3]: print('   V', v['signature'], v['what'][:400], v['events'][-5:])
