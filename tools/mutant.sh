#!/bin/bash
# usage: mutant.sh <name> <file> <python-expr-old> <python-expr-new> <check ids...>
# Creates a scratch worktree of /repo HEAD, replaces OLD by NEW (exactly once)
# in FILE, runs the listed checks against it (VF_REPO), removes the worktree.
name="$1"; file="$2"; old="$3"; new="$4"; shift 4
wt=/dev/shm/wt-mut-$name
git -C /repo worktree remove --force $wt >/dev/null 2>&1
git -C /repo worktree add --detach $wt HEAD >/dev/null 2>&1 || exit 2
python3 - "$wt/$file" "$old" "$new" <<'PY' || { git -C /repo worktree remove --force $wt; exit 2; }
import sys
p, old, new = sys.argv[1:4]
s = open(p).read()
assert s.count(old) == 1, f'pattern occurs {s.count(old)} times'
open(p, 'w').write(s.replace(old, new))
PY
for c in "$@"; do
  out=$(cd /verif && VF_REPO=$wt VERIF_WORKERS=${VERIF_WORKERS:-8} ./vf check $c --no-verify 2>&1)
  rc=$?
  echo "MUTANT $name check $c exit=$rc $(echo "$out" | grep -m2 '^# ' | cut -c1-230 | tr '\n' ' ')"
done
git -C /repo worktree remove --force $wt
