#!/bin/bash
# usage: applyfix.sh <basename in proposed_fixes without extension> [pytest paths...]
# Applies the patch to /repo, runs the given tests, commits with the .msg.
set -e
name="$1"; shift
cd /repo
git apply --exclude="tests/*" --check "/verif/proposed_fixes/$name.diff"
git apply --exclude="tests/*" "/verif/proposed_fixes/$name.diff"
if [ $# -gt 0 ]; then
  if ! /venv/bin/python -m pytest -q -p no:cacheprovider -x "$@" 2>&1 | tail -3; then
    echo "TESTS FAILED - reverting"; git checkout -- . ; exit 1
  fi
fi
git add -A
git commit -q -F "/verif/proposed_fixes/$name.msg"
git log --oneline | head -1
