#!/bin/bash
# usage: confirm_seed.sh <ID> <demo-location: unit|integration|plain> [extra pytest paths...]
# Confirms a seeded change living in the worktree /tmp/seed-<ID> (change applied):
#  1. demo fails with the change, passes without it
#  2. tests/unit (+ extra paths) give the same failures with the change as the
#     unchanged tree (environmental failures are identical on both)
# and copies patch.diff + demo into /verif/seeded/<ID>/.
id="$1"; where="$2"; shift 2
wt=${SEED_PREFIX:-/tmp/seed-}$id
out=/verif/seeded/${SEED_OUT:-}$id
cd $wt || exit 2
demo=$(ls SEED/test_demo.py SEED/demo.py 2>/dev/null | head -1)
[ -z "$demo" ] && { echo "no demo"; exit 2; }
run_demo() {
  if [ "$where" = plain ]; then
    PYTHONPATH=$wt /venv/bin/python $demo > /dev/shm/seed-$id-demo.log 2>&1
  else
    dest=tests/$where/test_seed_demo_$id.py
    cp $demo $dest
    PATH=/venv/bin:$PATH PYTHONPATH=$wt /venv/bin/python -m pytest -q -p no:cacheprovider $dest > /dev/shm/seed-$id-demo.log 2>&1
    rc=$?; rm -f $dest; return $rc
  fi
}
run_demo; with=$?
# (no git stash: the stash is shared by all worktrees of a repository)
git diff -- cylc > /dev/shm/seed-$id.cur.patch
git apply -R /dev/shm/seed-$id.cur.patch
run_demo; without=$?
git apply /dev/shm/seed-$id.cur.patch
echo "demo: with-change exit=$with  without-change exit=$without"
PATH=/venv/bin:$PATH PYTHONPATH=$wt /venv/bin/python -m pytest -q -p no:cacheprovider -x --co -q tests/unit >/dev/null 2>&1
PATH=/venv/bin:$PATH PYTHONPATH=$wt /venv/bin/python -m pytest -q -p no:cacheprovider tests/unit "$@" 2>&1 | tail -15 > /dev/shm/seed-$id-tests.log
grep -E "^(FAILED|ERROR)" /dev/shm/seed-$id-tests.log | sort > /dev/shm/seed-$id-fails.txt
tail -1 /dev/shm/seed-$id-tests.log
echo "failures with change:"; cat /dev/shm/seed-$id-fails.txt | cut -c1-120
mkdir -p $out
git diff -- cylc > $out/patch.diff
cp $demo $out/
cp SEED/NOTES.md $out/NOTES.md 2>/dev/null
