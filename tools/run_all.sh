#!/bin/bash
# run every registered quick check once; summary in /dev/shm/runall-<seed>.summary
seed=${1:-0}
out=/dev/shm/runall-$seed.summary
rm -f $out
cd /verif
for c in $(python3 -c "import json;print(' '.join(x['property_id'] for x in json.load(open('/verif/MANIFEST.json'))['checks']))"); do
  t0=$(date +%s)
  VERIF_SEED=$seed ./vf check $c --tier quick > /dev/shm/runall-$seed-$c.log 2>&1
  rc=$?
  t1=$(date +%s)
  echo "$c exit=$rc wall=$((t1-t0))s known=$(grep -c '^KNOWN-FINDING' /dev/shm/runall-$seed-$c.log) viol=$(grep -c '^VIOLATION' /dev/shm/runall-$seed-$c.log)" >> $out
done
echo ALLDONE >> $out
