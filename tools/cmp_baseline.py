#!/usr/bin/env python3
"""Compare a junit xml with BASELINE.json stable_pass: list regressions."""
import json, sys
import xml.etree.ElementTree as ET
base = json.load(open('/root/.vp/BASELINE.json'))
stable = set(base['stable_pass'])
tree = ET.parse(sys.argv[1])
res = {}
for tc in tree.iter('testcase'):
    name = f"{tc.get('classname')}::{tc.get('name')}"
    bad = any(ch.tag in ('failure', 'error') for ch in tc)
    skipped = any(ch.tag == 'skipped' for ch in tc)
    res[name] = 'fail' if bad else ('skip' if skipped else 'pass')
reg = sorted(n for n in stable if res.get(n) != 'pass')
print(f'stable={len(stable)} seen={len(res)} regressions={len(reg)}')
for n in reg[:40]:
    print('  ', n, res.get(n))
